#!/usr/bin/env python3
"""Regenerates MANIFEST.json from the table below (run after adding a check)."""
import json, subprocess
CHECKS = {
 "C12": dict(level="exploration", ref="2/C12",
   text="One generated script (DDL, multi-row inserts, point/range selects, deletes, committed and rolled-back transactions, optional checkpoints) is executed on a reference configuration and on 3-4 other configurations drawn from the documented ranges (page size 4-64 KiB, cache 24-10000 pages, pool 1-8, min keys 3-6, siblings 1-3); per-statement outcomes and final contents must be identical; the only excused difference is the explicit buffer-pool out-of-memory error with a cache below 256 pages. The I/O tap shows whether eviction write-back actually happened.",
   note="Trusted: pure differential oracle (no model): a defect that strikes identically in every configuration is not reported here. Row sizes and row counts stay inside the limits of open B+tree findings.",
   technique="property-based testing: differential testing of one generated workload across generated configurations"),
 "C07": dict(level="exploration", ref="2/C07",
   text="Generated histories on tables with PRIMARY KEY / UNIQUE / NOT NULL constraints, key values from a small pool so that collisions, re-inserts after delete/rollback and two-session conflicts are the norm. Two-sided oracle: the model predicts which statements must be rejected and which accepted; independently, after every commit the engine's own SELECT output must contain no duplicate key and no NULL in a NOT NULL column.",
   note="Trusted: the SQL reference model and workload interpreter; divergences not attributable to the property's own mechanism are abandoned (counted); features with open findings are excluded by construction (counted).", technique="property-based testing: model-based (stateful) histories with shrinking, differential against an in-memory SQL model plus a model-independent invariant on the engine's output"),
 "C09": dict(level="exploration", ref="2/C09",
   text="Generated histories split at random points by clean close + open with a different configuration each time (page sizes 4-16 KiB at creation, cache 64-10000, pool 1-4): every table, row and name must equal the model right after each reopen and for the rest of the history (new rows/tables/transactions must not collide with old ones).",
   note="Trusted: the SQL reference model and workload interpreter; divergences not attributable to the property's own mechanism are abandoned (counted); features with open findings are excluded by construction (counted).", technique="property-based testing: model-based (stateful) histories with shrinking, differential against an in-memory SQL model"),
 "C11": dict(level="exploration", ref="2/C11 + 1.10",
   text="SQL histories biased to page churn; at every quiescent point the page auditor (harness/src/audit.rs) walks the catalog trees, every relation's tree from the roots the catalog lists, overflow chains and the free list, and demands exactly one owner per page, ids in range, an acyclic free list consistent with its recorded tail, equal leaf depth and sibling links that mirror the leaf order. The raw-tree part of this property runs under C10.",
   note="Trusted: the auditor and the logic-free page/catalog facade; Trusted: the SQL reference model and workload interpreter; divergences not attributable to the property's own mechanism are abandoned (counted); features with open findings are excluded by construction (counted).", technique="property-based testing: generated histories with a structural invariant checker over the page graph after every quiescent step"),
 "C13": dict(level="exploration", ref="2/C13",
   text="Generated histories with VACUUM at arbitrary points (and update/VACUUM cycles): the model treats VACUUM as a logical no-op, so a fresh read of every table right after each VACUUM and for the rest of the history must equal the model; the page auditor must pass after VACUUM; the database must stay usable.",
   note="Trusted: the SQL reference model and workload interpreter; divergences not attributable to the property's own mechanism are abandoned (counted); features with open findings are excluded by construction (counted).", technique="property-based testing: model-based (stateful) histories with shrinking, differential against an in-memory SQL model (VACUUM as a metamorphic no-op) plus page-graph invariant"),
 "C15": dict(level="exploration", ref="2/C15",
   text="Generated interleavings of CREATE TABLE / CREATE UNIQUE INDEX / ALTER TABLE ADD|DROP COLUMN / DROP TABLE with DML inside committed and rolled-back transactions, names from a pool of three (reuse after drop), followed by reopen; name resolution and SELECT * of every table must equal the model with DDL as versioned state.",
   note="Trusted: the SQL reference model and workload interpreter; divergences not attributable to the property's own mechanism are abandoned (counted); features with open findings are excluded by construction (counted).", technique="property-based testing: model-based (stateful) histories with shrinking, differential against an in-memory SQL model"),
 "C01": dict(level="fault_enumeration", ref="2/C01 + 1.9",
   text="Each generated history is run once under the I/O tap; every crash point (prefix of the recorded file-mutation stream; the quick tier takes every boundary next to a step end plus every third other one) is turned into an on-disk image, opened and read back: the rows of every transaction acknowledged before the crash point must be there (the one commit in flight may be whole or absent). Crash points of one history are enumerated, histories are sampled. Crash points inside checkpoints and some transaction shapes are excluded by open findings (counted in the evidence).",
   note="Trusted: the crash model (prefixes of the recorded DBFile mutation stream, no torn/reordered writes), the I/O tap hook, the SQL reference model for the acknowledged state; histories whose live run diverges from the model are abandoned and counted.",
   technique="property-based testing with fault injection: generated histories x enumerated crash points (recorded I/O prefix replay), reference-model oracle, shrinking of the history"),
 "C02": dict(level="fault_enumeration", ref="2/C02 + 1.9",
   text="Same recording and crash-point enumeration as C01, with small caches so that uncommitted pages are stolen; the reopened contents must equal the acknowledged model state exactly (plus, possibly, the single in-flight commit, whole): nothing of an open, rolled-back or failed transaction may be visible.",
   note="Trusted: the crash model (prefixes of the recorded DBFile mutation stream, no torn/reordered writes), the I/O tap hook, the SQL reference model for the acknowledged state; histories whose live run diverges from the model are abandoned and counted.",
   technique="property-based testing with fault injection: generated histories x enumerated crash points, exact-state reference-model oracle"),
 "C08": dict(level="fault_enumeration", ref="2/C08 + 1.9",
   text="Same recording and crash points; for every image: open must succeed, a fixed usability probe must work and leave other tables unchanged, closing and opening again must change nothing, and (nested crash, depth 1) an image cut inside recovery's own writes and reopened must give the same contents as the uninterrupted recovery. Crash points strictly inside a checkpoint are excluded by an open finding; the point 'recovery completed, then crash' is always checked.",
   note="Trusted: the crash model (prefixes of the recorded DBFile mutation stream, no torn/reordered writes), the I/O tap hook, the SQL reference model for the acknowledged state; histories whose live run diverges from the model are abandoned and counted.",
   technique="property-based testing with fault injection incl. nested faults during recovery; metamorphic convergence oracle (no opinion on contents needed) plus usability probe"),
 "C04": dict(level="exploration", ref="2/C04",
   text="Statement-level schedules of 2-3 concurrently open sessions plus autocommit statements (the single harness thread owns the schedule, so every interleaving is deterministic and replayable) are checked (a) against a snapshot-isolation reference model: every SELECT inside a session, every affected-row count, commit outcomes and the committed state; (b) model-free on the engine alone: a rollback or an uncommitted write never changes what a fresh reader sees, and a session that repeats a SELECT without writing in between gets the same rows. Sampling of schedules; UPDATE inside sessions and write-write conflicts are excluded from (a) by open findings, (b) still covers conflicting deletes.",
   note="Trusted: the SI model (harness/src/sqlmodel.rs Model/Txn) and the schedule interpreter; tables without constraints; no DDL after setup; only the outcome of first-committer-wins is asserted.",
   technique="property-based testing: generated transaction programs + interleavings (owned schedule), differential against an SI reference model, plus metamorphic invariants on the engine alone"),
 "C05": dict(level="exploration", ref="2/C05",
   text="Generated schemas, NULL-rich rows and statements (SELECT with typed expression trees over comparison/AND/OR/NOT/IS NULL/BETWEEN/IN/LIKE/arithmetic/concatenation printed with minimal parentheses, computed projections, DISTINCT, ORDER BY, LIMIT/OFFSET, all five join kinds with ON and WHERE, GROUP BY with COUNT/SUM/MIN/MAX/AVG, UPDATE/DELETE with predicates) are answered by the engine and by an independent reference evaluator with three-valued logic; results compared as multisets, ORDER BY as a sortedness predicate, LIMIT as any valid window. Metamorphic: minimal and fully parenthesised prints of the same query return the same rows. Sampling.",
   note="Trusted: harness/src/qmodel.rs (reference evaluator and printer). NULLs last ascending; bytewise text order; integer arithmetic discarded when the exact result leaves 32 bits; divisors are non-zero literals.",
   technique="property-based testing: grammar-based query generation, differential against a reference evaluator, metamorphic parenthesisation relation"),
 "C10": dict(level="exploration", ref="2/C10",
   text="Generated operation sequences (insert/update/upsert/remove/lookup/scan) on a raw B+tree through the `verif` facade, for four key schemas and a grid of page/min-keys/siblings/cache settings, are compared after every operation with a BTreeMap model (operation outcome, full in-order scan, lookup of every key) and every few operations with a structural audit of the page graph (equal leaf depth, sibling links mirror the in-order leaf sequence, child/overflow references in range, every page owned exactly once). Sampling; open findings cap the payload size that is searched (see evidence.excluded / known.json).",
   note="Trusted: the BTreeMap model and harness/src/audit.rs; text key order = the engine's public Blob ordering; the facade is logic-free plumbing over Btree::{insert,update,upsert,remove_tuple,search_tuple,iter_forward}.",
   technique="property-based testing (proptest operation sequences) against a reference model plus an invariant checker over the page graph; process deaths are attributed and minimised with tools/ddmin.py"),
 "C03": dict(level="exploration", ref="2/C03",
   text="Generated sequential transaction histories (sessions ended by COMMIT / ROLLBACK / drop, failing statements at any position, execute_batch with failing members, DDL and DML) are run against the engine and a reference model; after every transaction end and every failed statement a fresh SELECT * of every table and name resolution of every pool name must equal the model. Sampling; features with open findings are excluded by construction and counted.",
   note="Trusted: the SQL reference model (harness/src/sqlmodel.rs) and workload interpreter (harness/src/workload.rs); generator stays inside the statement shapes whose meaning is not in doubt (DESIGN 1.15).",
   technique="property-based testing: model-based (stateful) histories with shrinking, differential against an in-memory SQL model"),
 "C17": dict(level="exploration", ref="2/C17",
   text="Generated sequences of append/force/reopen/truncate/read on a bare log file (through the `verif` facade) are compared after every force, reopen and read against a list model of the records appended since the last truncation: same count, order, strictly increasing LSNs, identical ids, kinds and payload bytes, nothing extra; record sizes are aimed at block boundaries. Sampling: held on the generated sequences only.",
   note="Trusted: the list model in harness/src/props/c17.rs; LSNs assigned like Pager::push_to_log; drop of the handle counts as a force; sizes within two block headers of the advertised maximum may be refused.",
   technique="property-based testing (proptest operation sequences + interpreter) against a reference model, with shrinking"),
 "C20": dict(level="exploration", ref="2/C20",
   text="Generated Request/Response values of every variant round-trip through to_bytes/from_bytes and the length-prefixed framing (short reads, back-to-back frames); random bytes and mutated valid frames are fed to every decoder and the frame reader with a no-panic / no-hang / bounded-allocation oracle. Sampling, not proof: held on the generated cases only.",
   note="Trusted: the harness mirror types and comparator; VmPeak-based allocation bound (64*len + 192 MiB after allocator warm-up), RLIMIT_AS 8 GiB; build profile opt-level 2 with overflow checks and debug assertions.",
   technique="property-based testing (proptest value trees): round-trip oracle + robustness oracle over generated/mutated byte strings"),
}
ALL = [json.loads(l)["id"] for l in open("/verif/properties.jsonl")]
hooks = subprocess.check_output(["git","-C","/repo","log","--format=%h %s"]).decode().splitlines()
hook_commits = [l.split()[0] for l in hooks if l.split(" ",1)[1].startswith("verif hook")]
m = {
 "version": 1,
 "setup_cmd": "./check --build",
 "hooks": {
   "guard": "cargo feature `verif` of crate axmosdb (crates/axmos-db/Cargo.toml)",
   "enable": "the harness crate /verif/harness path-depends on /repo/crates/axmos-db with features=[\"verif\"]; ./check rebuilds it from /repo's working tree on every invocation",
   "baseline_off_cmd": "./baseline_off.sh",
   "source_commits": hook_commits,
   "add_only": True,
 },
 "engines": [
   {"name": "vcheck", "path": "harness", "serves_properties": sorted(CHECKS), "kind_free_text": "Rust binary: proptest-driven generators + explicit oracles, own driver loop with shrinking, known-findings protocol, supervisor/worker processes with watchdog"},
 ],
 "checks": [
   {"property_id": pid, "quick_cmd": f"./check {pid} quick", "thorough_cmd": f"./check {pid} thorough",
    "evidence_file": f"evidence/{pid}.json", "replay_cmd_template": "./check --replay {path}", "engine": "vcheck",
    "level_claimed": {"category": c["level"], "text": c["text"], "design_ref": f"DESIGN.md section {c['ref']}"},
    "level_note": c["note"], "technique": c["technique"]}
   for pid, c in sorted(CHECKS.items())
 ],
 "notes": "All checks are generated-input search against explicit oracles (property-based testing / fuzzing). Known findings: findings/known.json. Seeds: VERIF_SEED; tier argument or VERIF_TIER.",
 "not_applicable": [{"property_id": p, "reason": "check not built yet (work in progress in this session); the technique applies, see DESIGN.md section 2"} for p in ALL if p not in CHECKS],
}
json.dump(m, open("/verif/MANIFEST.json","w"), indent=1)
print("checks:", sorted(CHECKS), "not_applicable:", len(m["not_applicable"]))
