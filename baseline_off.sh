#!/bin/bash
# Runs the repository's pinned test suite with the `verif` guard OFF (no feature flags).
# Prints the pass/fail counts; exit 0 iff nothing failed.
cd /repo || exit 2
export CARGO_NET_OFFLINE=true
if cargo nextest --version >/dev/null 2>&1 && [ -f /w/lib/nextest.toml ]; then
  cargo nextest run --workspace --no-fail-fast --tool-config-file pb:/w/lib/nextest.toml --profile pb --test-threads 8 --offline
else
  cargo test --workspace --no-fail-fast --offline
fi
