#!/bin/bash
# tools/sweep.sh <first-seed> <last-seed> [tier] [ids...]  — runs every registered check for a range of seeds from the
# current directory's ./check and prints one line per (check, seed) that did not exit 0.
cd "$(dirname "$0")/.."
export VERIF_HOME="$(pwd)"
F=$1; L=$2; T=${3:-quick}; shift 3 2>/dev/null
IDS="$@"; [ -z "$IDS" ] && IDS=$(python3 -c "import json;print(' '.join(c['property_id'] for c in json.load(open('MANIFEST.json'))['checks']))")
./check --build || exit 2
bad=0
for s in $(seq $F $L); do for id in $IDS; do
  out=$(VERIF_SEED=$s ./harness/target/release/vcheck run $id $T 2>&1); rc=$?
  if [ $rc -ne 0 ]; then bad=$((bad+1)); echo "NONZERO $id seed=$s rc=$rc"; echo "$out" | grep -E "^FAIL|^  |VIOLATION|INCONCL" | head -8 | cut -c1-300; fi
done; done
echo "SWEEP DONE seeds $F..$L tier $T nonzero=$bad"
