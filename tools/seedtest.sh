#!/bin/bash
# tools/seedtest.sh <patch.diff> <Cnn> [<Cnn>...]  — applies a seeded change to /repo, runs the quick checks, restores /repo.
P=$1; shift
cd /repo || exit 2
[ -z "$(git status --porcelain)" ] || { echo "repo not clean"; exit 2; }
git apply "$P" 2>/dev/null || patch -p1 -s --no-backup-if-mismatch --fuzz=3 < "$P" || { echo "PATCH DOES NOT APPLY"; git checkout -q -- .; git clean -fdq; exit 2; }
cd /verif
for id in "$@"; do
  out=$(VERIF_SEED=${VERIF_SEED:-0} ./check $id ${TIER:-quick} 2>&1); rc=$?
  echo "== $id rc=$rc $(echo "$out" | grep -c '^VIOLATION') violations"
  echo "$out" | grep -E "^FAIL|^  " | head -${LINES_SHOWN:-6} | cut -c1-260
done
cd /repo && git checkout -q -- . && git clean -fdq -e target
[ -n "${NO_REBUILD:-}" ] || (cd /verif && ./check --build >/dev/null 2>&1)
