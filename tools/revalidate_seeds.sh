#!/bin/bash
# tools/revalidate_seeds.sh [ids...] — applies every stored seeded change to /repo in turn and runs the quick tier of
# the checks its meta.json names (default: its own property); prints one line per seed. /repo must be clean.
cd /verif
ids="$@"; [ -z "$ids" ] && ids=$(ls seeded | grep -E '^C[0-9]+-[0-9]+$')
for id in $ids; do
  p=${id%-*}
  checks=$(python3 -c "
import json,re,sys
m=json.load(open('/verif/seeded/$id/meta.json'))
c=re.findall(r'C[0-9]{2}', str(m.get('caught_by','')))
c=[x for i,x in enumerate(c) if x not in c[:i]]
print(' '.join(c[:2]) if c and 'not caught' not in str(m.get('caught_by','')).lower() else '$p')")
  out=$(NO_REBUILD=1 ./tools/seedtest.sh /verif/seeded/$id/patch.diff $checks 2>&1 | grep -E "^== |PATCH DOES NOT|repo not clean" | sed 's/^== //' | tr '\n' ';')
  echo "$id [$checks]: $out"
done
(cd /verif && ./check --build >/dev/null 2>&1)
echo REVALIDATION DONE
