#!/usr/bin/env python3
"""ddmin.py <replay.json> <list-key> [timeout_s]  — shrinks case[list-key] of a replay file while `vcheck replay`
keeps ending the same way (same exit status class: died by signal / failed / hung). Writes <replay>.min.json.
Used for failures that kill the process, where the in-process proptest shrinking cannot run."""
import json, subprocess, sys, tempfile, os
path, key = sys.argv[1], sys.argv[2]
tmo = int(sys.argv[3]) if len(sys.argv) > 3 else 30
r = json.load(open(path))
def outcome(ops):
    r2 = dict(r); r2["case"] = dict(r["case"]); r2["case"][key] = ops
    with tempfile.NamedTemporaryFile("w", suffix=".json", delete=False, dir="/dev/shm") as f:
        json.dump(r2, f); name = f.name
    try:
        p = subprocess.run(["/verif/harness/target/release/vcheck", "replay", name], capture_output=True, timeout=tmo, env=dict(os.environ, VERIF_HANG_S="8", RUST_BACKTRACE="0"))
        code = p.returncode
        line = [l for l in p.stdout.decode(errors="replace").splitlines() if l.startswith("FAIL")]
        return ("sig" if code < 0 else code, line[0].split()[1] if line else "")
    except subprocess.TimeoutExpired:
        return ("timeout", "")
    finally:
        os.unlink(name)
ops = r["case"][key]
target = outcome(ops)
print("target outcome:", target, "ops:", len(ops))
if target[0] == 0:
    sys.exit("case passes")
n = 2
while len(ops) >= 2:
    chunk = max(1, len(ops) // n)
    reduced = False
    for i in range(0, len(ops), chunk):
        cand = ops[:i] + ops[i + chunk:]
        if cand and outcome(cand) == target:
            ops = cand; n = max(n - 1, 2); reduced = True
            break
    if not reduced:
        if chunk == 1: break
        n = min(n * 2, len(ops))
print("minimal ops:", len(ops))
r["case"][key] = ops
out = path.replace(".json", ".min.json")
json.dump(r, open(out, "w"), indent=1)
print(out)
