#!/usr/bin/env python3
"""addfinding.py <id> <property> <clause> <requires_tags csv> <excludes csv> <what> [--limits k=v,..] [--isolate] [--status open|fixed] [--commit sha]
Picks a witness from out/replays whose failure matches (clause prefix*, tags), copies it to findings/witness/<id>.json and appends the entry."""
import sys, json, glob, shutil, os
args = sys.argv[1:]
fid, prop, clause, req, exc, what = args[:6]
opts = args[6:]
req = [t for t in req.split(',') if t]
exc = [t for t in exc.split(',') if t]
entry = {"id": fid, "property": prop, "status": "open", "what": what, "clause": clause, "requires_tags": req, "excludes": exc}
i = 0
while i < len(opts):
    if opts[i] == '--isolate': entry["isolate"] = True
    elif opts[i] == '--status': i += 1; entry["status"] = opts[i]
    elif opts[i] == '--commit': i += 1; entry["commit"] = opts[i]
    elif opts[i] == '--limits': i += 1; entry["limits"] = {k: int(v) for k, v in (kv.split('=') for kv in opts[i].split(','))}
    elif opts[i] == '--detail': i += 1; entry["detail_contains"] = opts[i]
    elif opts[i] == '--witness-from': i += 1; entry["_from"] = opts[i]
    i += 1
def matches(r):
    f = r.get("failure") or {}
    c = f.get("clause", "")
    ok = c.startswith(clause[:-1]) if clause.endswith('*') else c == clause
    if "detail_contains" in entry and entry["detail_contains"] not in f.get("detail", ""): return False
    return r.get("property") == prop and ok and all(t in f.get("tags", []) for t in req)
src = entry.pop("_from", None)
if src is None:
    cands = []
    for p in sorted(glob.glob("/verif/out/replays/*.json")):
        r = json.load(open(p))
        if matches(r): cands.append((len(json.dumps(r["case"])), p))
    if cands: src = sorted(cands)[0][1]
if src:
    os.makedirs("/verif/findings/witness", exist_ok=True)
    shutil.copy(src, f"/verif/findings/witness/{fid}.json")
    entry["witness"] = f"witness/{fid}.json"
    print("witness:", src)
else:
    print("NO WITNESS FOUND")
k = json.load(open("/verif/findings/known.json"))
entry["line"] = (f"fixed: property={prop} {entry.get('commit','?')} {what}" if entry["status"] == "fixed" else f"KNOWN-FINDING: property={prop} {what} [{fid}]")
k = [e for e in k if e["id"] != fid] + [entry]
json.dump(k, open("/verif/findings/known.json", "w"), indent=1)
