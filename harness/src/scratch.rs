//! Scratch directories under /dev/shm (O_DIRECT works on this kernel's tmpfs).
use std::path::{Path, PathBuf};
use std::sync::atomic::{AtomicU64, Ordering};

static N: AtomicU64 = AtomicU64::new(0);

pub fn base_for(pid: u32) -> PathBuf {
    let root = if Path::new("/dev/shm").is_dir() { PathBuf::from("/dev/shm") } else { std::env::temp_dir() };
    root.join(format!("axverif-{pid}"))
}

pub struct Scratch {
    pub dir: PathBuf,
}

impl Scratch {
    pub fn new() -> Scratch {
        let dir = base_for(std::process::id()).join(format!("s{}", N.fetch_add(1, Ordering::Relaxed)));
        let _ = std::fs::remove_dir_all(&dir);
        std::fs::create_dir_all(&dir).expect("cannot create scratch dir");
        Scratch { dir }
    }
    pub fn path(&self, name: &str) -> PathBuf {
        self.dir.join(name)
    }
}

impl Drop for Scratch {
    fn drop(&mut self) {
        let _ = std::fs::remove_dir_all(&self.dir);
    }
}

pub fn cleanup_pid(pid: u32) {
    let _ = std::fs::remove_dir_all(base_for(pid));
}
