//! Exploration helper (not part of any check): runs SQL lines from stdin against a scratch database.
//! Lines: plain SQL = autocommit; "@begin s" / "@s <sql>" / "@commit s" / "@rollback s" / "@drop s";
//! "@flush" "@vacuum" "@analyze" "@reopen" "@explain <sql>" "@crashcopy" (copy files = kill -9 + reopen).
use axmosdb::{DBConfig, Database};
use std::collections::BTreeMap;
use std::io::BufRead;

fn show(r: &axmosdb::runtime::QueryResult) -> String {
    use axmosdb::runtime::QueryResult::*;
    match r {
        Rows(rows) => {
            let cols: Vec<String> = (0..rows.num_columns()).map(|i| rows.column(i).unwrap_or("?").to_string()).collect();
            let mut s = format!("ROWS[{}] cols={:?}", rows.len(), cols);
            for row in rows.iterrows() {
                let cells: Vec<String> = row.iter().map(|v| format!("{v:?}")).collect();
                s.push_str(&format!("\n    ({})", cells.join(", ")));
            }
            s
        }
        RowsAffected(n) => format!("AFFECTED {n}"),
        Ddl(d) => format!("DDL {d:?}"),
    }
}

fn main() {
    std::panic::set_hook(Box::new(|i| eprintln!("  [panic] {}", i)));
    let dir = std::path::PathBuf::from(format!("/dev/shm/axprobe-{}", std::process::id()));
    let _ = std::fs::remove_dir_all(&dir);
    std::fs::create_dir_all(&dir).unwrap();
    let path = dir.join("db.axm");
    let args: Vec<String> = std::env::args().collect();
    let cache: usize = args.get(1).and_then(|s| s.parse().ok()).unwrap_or(256);
    let page: usize = args.get(2).and_then(|s| s.parse().ok()).unwrap_or(4096);
    let cfg = DBConfig::new(page, cache, 4, 3, 2);
    let mut db = Some(Database::create(&path, cfg).unwrap());
    let mut sessions: BTreeMap<String, axmosdb::tcp::session::Session> = BTreeMap::new();
    for line in std::io::stdin().lock().lines() {
        let line = line.unwrap();
        let line = line.trim();
        if line.is_empty() || line.starts_with('#') {
            continue;
        }
        println!("> {line}");
        let d = db.as_ref().unwrap();
        if let Some(rest) = line.strip_prefix('@') {
            let (cmd, arg) = rest.split_once(' ').unwrap_or((rest, ""));
            match cmd {
                "begin" => match d.session() {
                    Ok(s) => {
                        sessions.insert(arg.to_string(), s);
                        println!("  ok");
                    }
                    Err(e) => println!("  ERR {e}"),
                },
                "commit" => println!("  {:?}", sessions.remove(arg).map(|mut s| s.commit_transaction().map_err(|e| e.to_string()))),
                "rollback" => println!("  {:?}", sessions.remove(arg).map(|mut s| s.abort_transaction().map_err(|e| e.to_string()))),
                "drop" => {
                    sessions.remove(arg);
                    println!("  dropped");
                }
                "flush" => println!("  {:?}", d.flush().map_err(|e| e.to_string())),
                "vacuum" => println!("  {:?}", d.vacuum().map(|_| ()).map_err(|e| e.to_string())),
                "analyze" => println!("  {:?}", d.analyze(1.0, 1000).map_err(|e| e.to_string())),
                "explain" => println!("  {}", d.explain(arg).unwrap_or_else(|e| format!("ERR {e}"))),
                "reopen" => {
                    sessions.clear();
                    db = None;
                    db = Some(Database::open(&path, cfg).unwrap());
                    println!("  reopened");
                }
                "waldump" => {
                    let d2 = dir.join("wd");
                    let _ = std::fs::remove_dir_all(&d2);
                    std::fs::create_dir_all(&d2).unwrap();
                    std::fs::copy(dir.join("axmos.log"), d2.join("axmos.log")).unwrap();
                    match axmosdb::verif::wal::Wal::open(d2.join("axmos.log")) {
                        Ok(mut w) => match w.read_all(4) {
                            Ok(recs) => {
                                for r in recs {
                                    println!("  lsn={} tid={} kind={:#x} prev={:?} oid={:?} row={:?} undo={}B redo={}B", r.lsn, r.tid, r.kind, r.prev_lsn, r.object_id, r.row_id, r.undo.len(), r.redo.len());
                                }
                            }
                            Err(e) => println!("  read error {e}"),
                        },
                        Err(e) => println!("  open error {e}"),
                    }
                }
                "crashcopy" => {
                    let d2 = dir.join("crash");
                    let _ = std::fs::remove_dir_all(&d2);
                    std::fs::create_dir_all(&d2).unwrap();
                    std::fs::copy(&path, d2.join("db.axm")).unwrap();
                    std::fs::copy(dir.join("axmos.log"), d2.join("axmos.log")).unwrap();
                    match Database::open(d2.join("db.axm"), cfg) {
                        Ok(c) => {
                            for t in arg.split_whitespace() {
                                println!("  crash-image {t}: {}", c.execute(&format!("SELECT * FROM {t}")).map(|r| show(&r)).unwrap_or_else(|e| format!("ERR {e}")));
                            }
                        }
                        Err(e) => println!("  crash-image open ERR {e}"),
                    }
                }
                s => match sessions.get_mut(s) {
                    Some(sess) => println!("  {}", sess.execute(arg).map(|r| show(&r)).unwrap_or_else(|e| format!("ERR {e}"))),
                    None => println!("  no session {s}"),
                },
            }
        } else {
            println!("  {}", d.execute(line).map(|r| show(&r)).unwrap_or_else(|e| format!("ERR {e}")));
        }
    }
    sessions.clear();
    drop(db);
    let _ = std::fs::remove_dir_all(&dir);
}
