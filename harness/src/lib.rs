//! The checking machinery as a library: the `vcheck` binary (supervisor / shard workers) and the libFuzzer targets
//! under /verif/fuzz both link it.
#![allow(dead_code)]
pub mod audit;
pub mod crashsim;
pub mod dbx;
pub mod engine;
pub mod panics;
pub mod props;
pub mod qmodel;
pub mod scratch;
pub mod sqlmodel;
pub mod workload;
