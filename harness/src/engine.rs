//! Common machinery: driver loop over proptest value trees, shrinking, known-findings
//! protocol, evidence, supervisor/worker plumbing. See DESIGN.md section 1.

use proptest::strategy::{Strategy, ValueTree};
use proptest::test_runner::{Config, RngAlgorithm, TestRng, TestRunner};
use serde::{Deserialize, Serialize, de::DeserializeOwned};
use serde_json::{Value, json};
use std::collections::{BTreeMap, BTreeSet};
use std::hash::{Hash, Hasher};
use std::path::{Path, PathBuf};
use std::sync::Mutex;
use std::time::{Duration, Instant};

/// Root of the verification tree (findings, evidence, out). Registered commands run in /verif; background sweeps from a snapshot set VERIF_HOME.
pub fn verif_dir() -> String {
    std::env::var("VERIF_HOME").unwrap_or_else(|_| "/verif".to_string())
}

#[derive(Clone, Copy, Debug, PartialEq, Eq, Serialize, Deserialize)]
#[serde(rename_all = "lowercase")]
pub enum Tier {
    Quick,
    Thorough,
}

impl Tier {
    pub fn parse(s: &str) -> Option<Tier> {
        match s {
            "quick" => Some(Tier::Quick),
            "thorough" => Some(Tier::Thorough),
            _ => None,
        }
    }
    pub fn name(&self) -> &'static str {
        match self {
            Tier::Quick => "quick",
            Tier::Thorough => "thorough",
        }
    }
    pub fn pick<T>(&self, q: T, t: T) -> T {
        match self {
            Tier::Quick => q,
            Tier::Thorough => t,
        }
    }
}

/// A failed oracle clause. `clause` names the oracle clause (stable identifier), `tags`
/// the generator feature tags present in the failing case, `detail` is for humans.
#[derive(Clone, Debug, Serialize, Deserialize, PartialEq)]
pub struct Failure {
    pub clause: String,
    pub detail: String,
    #[serde(default)]
    pub tags: Vec<String>,
}

impl Failure {
    pub fn new(clause: &str, detail: impl Into<String>) -> Self {
        Failure {
            clause: clause.to_string(),
            detail: detail.into(),
            tags: vec![],
        }
    }
    pub fn with_tags(mut self, tags: impl IntoIterator<Item = String>) -> Self {
        let mut t: BTreeSet<String> = self.tags.into_iter().collect();
        t.extend(tags);
        self.tags = t.into_iter().collect();
        self
    }
}

/// What running one generated case produced.
#[derive(Clone, Debug, Default)]
pub struct CaseOut {
    pub failure: Option<Failure>,
    /// Number of oracle evaluations this case stands for (e.g. crash points); at least 1.
    pub evals: u64,
    /// Structural hashes of the distinct non-trivial (sub)cases covered.
    pub nontrivial: Vec<u64>,
    pub labels: Vec<String>,
    /// Steps skipped / features suppressed because of an open finding: tag -> count.
    pub excluded: Vec<String>,
}

impl CaseOut {
    pub fn pass() -> Self {
        CaseOut {
            evals: 1,
            ..Default::default()
        }
    }
    pub fn fail(f: Failure) -> Self {
        CaseOut {
            failure: Some(f),
            evals: 1,
            ..Default::default()
        }
    }
    pub fn label(&mut self, l: &str) {
        self.labels.push(l.to_string());
    }
}

pub fn hash_of<T: Hash>(t: &T) -> u64 {
    let mut h = std::collections::hash_map::DefaultHasher::new();
    t.hash(&mut h);
    h.finish()
}

pub fn hash_json<T: Serialize>(t: &T) -> u64 {
    hash_of(&serde_json::to_string(t).unwrap_or_default())
}

// ---------------------------------------------------------------------------------------
// Known findings
// ---------------------------------------------------------------------------------------

#[derive(Clone, Debug, Serialize, Deserialize)]
pub struct Finding {
    pub id: String,
    pub property: String,
    /// "open" or "fixed"
    pub status: String,
    pub what: String,
    /// Oracle clause the finding fails with.
    pub clause: String,
    /// Tags that must all be present in a failing (shrunk) case for it to count as this finding.
    #[serde(default)]
    pub requires_tags: Vec<String>,
    /// Optional substring the failure detail must contain (e.g. panic site).
    #[serde(default)]
    pub detail_contains: Option<String>,
    /// Witness replay file, relative to /verif/findings.
    #[serde(default)]
    pub witness: Option<String>,
    /// Generator feature tags switched off while this finding is open: "Cnn:tag" or "*:tag".
    #[serde(default)]
    pub excludes: Vec<String>,
    /// Generator size limits while open: "Cnn:name" or "*:name" -> value.
    #[serde(default)]
    pub limits: BTreeMap<String, u64>,
    #[serde(default)]
    pub commit: Option<String>,
    /// Other properties whose checks can meet the same failure signature.
    #[serde(default)]
    pub also_properties: Vec<String>,
    /// The witness kills or hangs the process: replay it in a child process (supervisor does that).
    #[serde(default)]
    pub isolate: bool,
}

impl Finding {
    pub fn matches(&self, property: &str, f: &Failure) -> bool {
        let clause_ok = match self.clause.strip_suffix('*') {
            Some(prefix) => f.clause.starts_with(prefix),
            None => self.clause == f.clause,
        };
        (self.property == property || self.also_properties.iter().any(|p| p == property))
            && clause_ok
            && self.requires_tags.iter().all(|t| f.tags.contains(t))
            && self
                .detail_contains
                .as_ref()
                .map(|s| f.detail.contains(s.as_str()))
                .unwrap_or(true)
    }
}

#[derive(Clone, Debug, Default)]
pub struct Findings {
    pub all: Vec<Finding>,
}

impl Findings {
    pub fn load() -> Findings {
        let p = Path::new(&verif_dir()).join("findings/known.json");
        match std::fs::read_to_string(&p) {
            Ok(s) => Findings {
                all: serde_json::from_str(&s).unwrap_or_else(|e| {
                    eprintln!("cannot parse {}: {e}", p.display());
                    std::process::exit(2)
                }),
            },
            Err(_) => Findings::default(),
        }
    }
    pub fn open_for(&self, property: &str) -> Vec<&Finding> {
        self.all
            .iter()
            .filter(|f| f.property == property && f.status == "open")
            .collect()
    }
    pub fn for_property(&self, property: &str) -> Vec<&Finding> {
        self.all.iter().filter(|f| f.property == property).collect()
    }
    /// Tags excluded for `property` by open findings (of any property).
    pub fn excludes(&self, property: &str) -> BTreeMap<String, String> {
        let mut out = BTreeMap::new();
        for f in self.all.iter().filter(|f| f.status == "open") {
            for e in &f.excludes {
                if let Some((p, tag)) = e.split_once(':') {
                    if p == "*" || p == property {
                        out.insert(tag.to_string(), f.id.clone());
                    }
                }
            }
        }
        out
    }
    pub fn limit(&self, property: &str, name: &str, default: u64) -> u64 {
        let mut v = default;
        for f in self.all.iter().filter(|f| f.status == "open") {
            for (k, val) in &f.limits {
                if let Some((p, n)) = k.split_once(':') {
                    if (p == "*" || p == property) && n == name {
                        v = v.min(*val);
                    }
                }
            }
        }
        v
    }
    pub fn match_open(&self, property: &str, f: &Failure) -> Option<&Finding> {
        self.all
            .iter()
            .find(|k| k.status == "open" && k.matches(property, f))
    }
}

// ---------------------------------------------------------------------------------------
// Replay files
// ---------------------------------------------------------------------------------------

#[derive(Clone, Debug, Serialize, Deserialize)]
pub struct Replay {
    pub property: String,
    /// Which sub-generator / case type of the property this is.
    pub kind: String,
    pub case: Value,
    #[serde(default)]
    pub failure: Option<Failure>,
    #[serde(default)]
    pub tier: Option<String>,
    #[serde(default)]
    pub seed: Option<u64>,
    #[serde(default)]
    pub shard: Option<u32>,
    #[serde(default)]
    pub shrunk_from: Option<Value>,
    #[serde(default)]
    pub note: Option<String>,
}

pub fn write_replay(r: &Replay) -> PathBuf {
    let dir = Path::new(&verif_dir()).join("out/replays");
    let _ = std::fs::create_dir_all(&dir);
    let h = hash_json(&r.case);
    let p = dir.join(format!("{}-{}-{:016x}.json", r.property, r.kind, h));
    let _ = std::fs::write(&p, serde_json::to_string_pretty(r).unwrap());
    p
}

// ---------------------------------------------------------------------------------------
// Shard context and result
// ---------------------------------------------------------------------------------------

#[derive(Clone, Debug, Serialize, Deserialize)]
pub struct ViolationRec {
    pub replay: String,
    pub clause: String,
    pub detail: String,
    pub tags: Vec<String>,
}

#[derive(Clone, Debug, Default, Serialize, Deserialize)]
pub struct ShardResult {
    pub evaluations: u64,
    pub cases: u64,
    pub nontrivial: BTreeSet<u64>,
    pub labels: BTreeMap<String, u64>,
    pub excluded: BTreeMap<String, u64>,
    pub known_seen: BTreeMap<String, u64>,
    pub known_lines: BTreeSet<String>,
    pub infos: Vec<String>,
    pub violations: Vec<ViolationRec>,
    pub samples: Vec<Value>,
    pub exhaustive: Option<bool>,
    pub extra: BTreeMap<String, Value>,
    pub budget_exhausted: bool,
}

impl ShardResult {
    pub fn merge(&mut self, o: ShardResult) {
        self.evaluations += o.evaluations;
        self.cases += o.cases;
        self.nontrivial.extend(o.nontrivial);
        for (k, v) in o.labels {
            *self.labels.entry(k).or_default() += v;
        }
        for (k, v) in o.excluded {
            *self.excluded.entry(k).or_default() += v;
        }
        for (k, v) in o.known_seen {
            *self.known_seen.entry(k).or_default() += v;
        }
        self.known_lines.extend(o.known_lines);
        self.infos.extend(o.infos);
        self.violations.extend(o.violations);
        for s in o.samples {
            if self.samples.len() < 6 {
                self.samples.push(s);
            }
        }
        self.exhaustive = match (self.exhaustive, o.exhaustive) {
            (Some(a), Some(b)) => Some(a && b),
            (a, None) => a,
            (None, b) => b,
        };
        for (k, v) in o.extra {
            match (self.extra.get(&k).and_then(|x| x.as_u64()), v.as_u64()) {
                (Some(a), Some(b)) => {
                    self.extra.insert(k, json!(a + b));
                }
                _ => {
                    self.extra.entry(k).or_insert(v);
                }
            }
        }
        self.budget_exhausted |= o.budget_exhausted;
    }
}

pub struct ShardCtx {
    pub property: &'static str,
    pub tier: Tier,
    pub seed: u64,
    pub shard: u32,
    pub nshards: u32,
    pub findings: Findings,
    pub excludes: BTreeMap<String, String>,
    pub res: ShardResult,
    pub deadline: Instant,
    stream: u64,
}

/// The current call, for the watchdog: (start, description).
pub static CURRENT_CALL: Mutex<Option<(Instant, String)>> = Mutex::new(None);

pub fn call_begin(desc: impl FnOnce() -> String) {
    *CURRENT_CALL.lock().unwrap() = Some((Instant::now(), desc()));
}

/// Persists the case about to run, so the supervisor can attribute a process death to it.
pub fn persist_current<C: Serialize>(kind: &str, case: &C) {
    let dir = crate::scratch::base_for(std::process::id());
    let _ = std::fs::create_dir_all(&dir);
    let _ = std::fs::write(dir.join("cur.json"), json!({"kind": kind, "case": case}).to_string());
}
pub fn call_end() {
    *CURRENT_CALL.lock().unwrap() = None;
}

fn splitmix(mut x: u64) -> u64 {
    x = x.wrapping_add(0x9E3779B97F4A7C15);
    let mut z = x;
    z = (z ^ (z >> 30)).wrapping_mul(0xBF58476D1CE4E5B9);
    z = (z ^ (z >> 27)).wrapping_mul(0x94D049BB133111EB);
    z ^ (z >> 31)
}

impl ShardCtx {
    pub fn new(property: &'static str, tier: Tier, seed: u64, shard: u32, nshards: u32, budget: Duration) -> Self {
        let mut findings = Findings::load();
        if std::env::var("VERIF_NO_EXCLUDES").is_ok() {
            // harvesting mode (never used by registered commands): search the whole domain
            for f in findings.all.iter_mut() {
                f.excludes.clear();
                f.limits.clear();
            }
        }
        let mut excludes = findings.excludes(property);
        if let Ok(allow) = std::env::var("VERIF_ALLOW") {
            // harvesting mode (never used by registered commands): re-enable single feature tags
            for t in allow.split(',') {
                excludes.remove(t.trim());
            }
        }
        ShardCtx {
            property,
            tier,
            seed,
            shard,
            nshards,
            findings,
            excludes,
            res: ShardResult::default(),
            deadline: Instant::now() + budget,
            stream: 0,
        }
    }

    pub fn excluded(&self, tag: &str) -> bool {
        self.excludes.contains_key(tag)
    }

    pub fn limit(&self, name: &str, default: u64) -> u64 {
        self.findings.limit(self.property, name, default)
    }

    /// Cases this shard should run out of a property-wide total.
    pub fn share(&self, total: u64) -> u64 {
        let n = self.nshards as u64;
        total / n + if (self.shard as u64) < total % n { 1 } else { 0 }
    }

    fn runner(&mut self, kind: &str) -> TestRunner {
        self.stream += 1;
        let mut s = splitmix(if self.seed == 0 { 0x5EED_AB1E_2026 } else { self.seed });
        s = splitmix(s ^ hash_of(&(self.property, kind, self.shard, self.stream)));
        let mut seed = [0u8; 32];
        for i in 0..4 {
            s = splitmix(s);
            seed[i * 8..i * 8 + 8].copy_from_slice(&s.to_le_bytes());
        }
        let cfg = Config {
            failure_persistence: None,
            ..Config::default()
        };
        TestRunner::new_with_rng(cfg, TestRng::from_seed(RngAlgorithm::ChaCha, &seed))
    }

    pub fn out_of_time(&self) -> bool {
        Instant::now() > self.deadline
    }

    fn absorb(&mut self, out: &CaseOut) {
        self.res.cases += 1;
        self.res.evaluations += out.evals.max(1);
        self.res.nontrivial.extend(out.nontrivial.iter().copied());
        for l in &out.labels {
            *self.res.labels.entry(l.clone()).or_default() += 1;
        }
        for l in &out.excluded {
            *self.res.excluded.entry(l.clone()).or_default() += 1;
        }
    }

    /// Handles a failure that was already shrunk (or needs no shrinking).
    pub fn report<C: Serialize>(&mut self, kind: &str, case: &C, f: Failure, shrunk_from: Option<Value>) {
        if let Some(k) = self.findings.match_open(self.property, &f) {
            let id = k.id.clone();
            if std::env::var("VERIF_ALLOW").is_ok() || std::env::var("VERIF_NO_EXCLUDES").is_ok() {
                // harvesting mode: keep the shrunk case of a known finding as a witness candidate
                let r = Replay { property: self.property.to_string(), kind: kind.to_string(), case: serde_json::to_value(case).unwrap(), failure: Some(f.clone()), tier: None, seed: Some(self.seed), shard: Some(self.shard), shrunk_from: None, note: Some(format!("matches {id}")) };
                write_replay(&r);
            }
            let line = format!("KNOWN-FINDING: property={} {} [{}]", self.property, k.what, k.id);
            self.res.known_lines.insert(line);
            *self.res.known_seen.entry(id).or_default() += 1;
            return;
        }
        let r = Replay {
            property: self.property.to_string(),
            kind: kind.to_string(),
            case: serde_json::to_value(case).unwrap(),
            failure: Some(f.clone()),
            tier: Some(self.tier.name().into()),
            seed: Some(self.seed),
            shard: Some(self.shard),
            shrunk_from,
            note: None,
        };
        let p = write_replay(&r);
        self.res.violations.push(ViolationRec {
            replay: p.display().to_string(),
            clause: f.clause,
            detail: f.detail,
            tags: f.tags,
        });
    }

    /// Phase B driver: generates `n` cases from `strategy`, runs each, shrinks failures
    /// (keeping the failure clause), attributes them to known findings or reports them.
    /// Stops at the first *new* violation.
    pub fn search<C, S>(&mut self, kind: &str, strategy: S, n: u64, run: &dyn Fn(&C) -> CaseOut)
    where
        C: Serialize + Clone + std::fmt::Debug,
        S: Strategy<Value = C>,
    {
        self.search_with(kind, strategy, n, run, None)
    }

    /// `search` plus a structural simplifier applied after proptest's own shrinking: `simpler(case)` lists
    /// smaller variants of a case; the first one that fails with the same clause replaces it, to a fixpoint.
    pub fn search_with<C, S>(&mut self, kind: &str, strategy: S, n: u64, run: &dyn Fn(&C) -> CaseOut, simpler: Option<&dyn Fn(&C) -> Vec<C>>)
    where
        C: Serialize + Clone + std::fmt::Debug,
        S: Strategy<Value = C>,
    {
        let mut runner = self.runner(kind);
        let mut known_shrinks = 0u32;
        for i in 0..n {
            if !self.res.violations.is_empty() {
                break;
            }
            if self.out_of_time() {
                self.res.budget_exhausted = true;
                break;
            }
            let mut tree = match strategy.new_tree(&mut runner) {
                Ok(t) => t,
                Err(e) => {
                    self.res.infos.push(format!("generator rejected a case: {e}"));
                    continue;
                }
            };
            let case = tree.current();
            persist_current(kind, &case);
            call_begin(|| format!("{kind} case {i}: {}", truncate(&serde_json::to_string(&case).unwrap_or_default(), 4000)));
            let out = run(&case);
            call_end();
            self.absorb(&out);
            if self.res.samples.len() < 3 && (!out.nontrivial.is_empty() || i + 1 == n) {
                self.res.samples.push(json!({"kind": kind, "case": serde_json::to_value(&case).unwrap()}));
            }
            let Some(f0) = out.failure else { continue };
            // If an unshrunk failure already matches an open finding and we have seen plenty, skip shrinking.
            if known_shrinks >= 8 {
                if let Some(k) = self.findings.match_open(self.property, &f0) {
                    let id = k.id.clone();
                    *self.res.known_seen.entry(id).or_default() += 1;
                    continue;
                }
            }
            // Shrink, keeping the failure clause. (A hang costs the full watchdog limit per attempt and leaks
            // its threads: hangs are reported as found.)
            let original = serde_json::to_value(&case).unwrap();
            let mut best = (case.clone(), f0.clone());
            let mut steps = 0u32;
            let max_steps = if f0.clause == "hang" { 0u32 } else { 400u32 };
            'outer: while tree.simplify() {
                loop {
                    steps += 1;
                    if steps > max_steps || self.out_of_time() {
                        break 'outer;
                    }
                    let c = tree.current();
                    persist_current(kind, &c);
                    call_begin(|| format!("{kind} shrink of case {i}: {}", truncate(&serde_json::to_string(&c).unwrap_or_default(), 4000)));
                    let o = run(&c);
                    call_end();
                    match o.failure {
                        Some(f) if f.clause == f0.clause => {
                            best = (c, f);
                            break;
                        }
                        _ => {
                            if !tree.complicate() {
                                break 'outer;
                            }
                        }
                    }
                }
            }
            if let (Some(simpler), false) = (simpler, f0.clause == "hang") {
                let mut runs = 0u32;
                'fix: loop {
                    for c in simpler(&best.0) {
                        runs += 1;
                        if runs > 4000 || self.out_of_time() {
                            break 'fix;
                        }
                        persist_current(kind, &c);
                        call_begin(|| format!("{kind} simplification of case {i}: {}", truncate(&serde_json::to_string(&c).unwrap_or_default(), 4000)));
                        let o = run(&c);
                        call_end();
                        if let Some(f) = o.failure {
                            if f.clause == f0.clause {
                                best = (c, f);
                                continue 'fix;
                            }
                        }
                    }
                    break;
                }
            }
            let before = self.res.violations.len();
            self.report(kind, &best.0, best.1, Some(original));
            if self.res.violations.len() == before {
                known_shrinks += 1;
            }
        }
    }

    /// Runs one explicit case (enumerated spaces, witnesses) through the same accounting.
    pub fn run_one<C: Serialize + Clone>(&mut self, kind: &str, case: &C, run: &dyn Fn(&C) -> CaseOut) -> bool {
        persist_current(kind, case);
        call_begin(|| format!("{kind} explicit case: {}", truncate(&serde_json::to_string(case).unwrap_or_default(), 4000)));
        let out = run(case);
        call_end();
        self.absorb(&out);
        if self.res.samples.len() < 3 && !out.nontrivial.is_empty() {
            self.res.samples.push(json!({"kind": kind, "case": serde_json::to_value(case).unwrap()}));
        }
        match out.failure {
            Some(f) => {
                self.report(kind, case, f, None);
                false
            }
            None => true,
        }
    }

    /// Phase A: replay the witnesses of all findings of this property.
    pub fn witnesses(&mut self, replay: &dyn Fn(&str, &Value) -> CaseOut) {
        let list: Vec<Finding> = self.findings.for_property(self.property).into_iter().cloned().collect();
        for k in list {
            if k.isolate {
                continue; // replayed by the supervisor in a child process
            }
            let Some(w) = &k.witness else {
                if k.status == "open" {
                    self.res.infos.push(format!("finding {} has no witness", k.id));
                }
                continue;
            };
            let p = Path::new(&verif_dir()).join("findings").join(w);
            let r: Replay = match std::fs::read_to_string(&p).ok().and_then(|s| serde_json::from_str(&s).ok()) {
                Some(r) => r,
                None => {
                    self.res.infos.push(format!("cannot read witness {}", p.display()));
                    continue;
                }
            };
            call_begin(|| format!("witness {}", k.id));
            let out = replay(&r.kind, &r.case);
            call_end();
            self.res.evaluations += out.evals.max(1);
            *self.res.labels.entry("witness_replayed".into()).or_default() += 1;
            match (k.status.as_str(), out.failure) {
                ("open", Some(f)) => {
                    if k.matches(self.property, &f) {
                        self.res.known_lines.insert(format!(
                            "KNOWN-FINDING: property={} {} [{}]",
                            self.property, k.what, k.id
                        ));
                        *self.res.known_seen.entry(k.id.clone()).or_default() += 1;
                    } else if let Some(other) = self.findings.match_open(self.property, &f) {
                        let (oid, owhat) = (other.id.clone(), other.what.clone());
                        self.res.known_lines.insert(format!(
                            "KNOWN-FINDING: property={} {} [{}]",
                            self.property, owhat, oid
                        ));
                        self.res.infos.push(format!("witness of {} now fails as {}", k.id, oid));
                    } else {
                        // a different violation on a listed input
                        self.res.violations.push(ViolationRec {
                            replay: p.display().to_string(),
                            clause: f.clause,
                            detail: format!("witness of {} fails with a different signature: {}", k.id, f.detail),
                            tags: f.tags,
                        });
                    }
                }
                ("open", None) => {
                    self.res.infos.push(format!(
                        "INFO: witness of open finding {} no longer fails (stale entry?)",
                        k.id
                    ));
                }
                ("fixed", Some(f)) => {
                    self.res.violations.push(ViolationRec {
                        replay: p.display().to_string(),
                        clause: f.clause,
                        detail: format!("fixed finding {} returned: {}", k.id, f.detail),
                        tags: f.tags,
                    });
                }
                _ => {}
            }
        }
    }
}

pub fn truncate(s: &str, n: usize) -> String {
    if s.len() <= n {
        s.to_string()
    } else {
        let mut e = n;
        while !s.is_char_boundary(e) {
            e -= 1;
        }
        format!("{}…[{} bytes]", &s[..e], s.len())
    }
}

pub fn from_value<C: DeserializeOwned>(v: &Value) -> Result<C, String> {
    serde_json::from_value(v.clone()).map_err(|e| format!("cannot decode case: {e}"))
}

/// Monotone index mapping (shrinks toward earlier elements).
pub fn pick_idx(raw: u16, len: usize) -> usize {
    if len == 0 {
        0
    } else {
        ((raw as usize) * len) >> 16
    }
}

// ---------------------------------------------------------------------------------------
// Property registry interface
// ---------------------------------------------------------------------------------------

pub struct PropertyInfo {
    pub id: &'static str,
    pub level: &'static str,
    pub rule: &'static str,
    pub assumptions: &'static [&'static str],
    /// Wall-clock cap for the whole tier (seconds): (quick, thorough).
    pub budget_s: (u64, u64),
    /// What a hang means: true = violation (C14/C16), false = inconclusive.
    pub hang_is_violation: bool,
    pub max_shards: u32,
    pub run_shard: fn(&mut ShardCtx),
    pub replay: fn(kind: &str, case: &Value) -> CaseOut,
}
