//! Thin wrapper around the engine's public API for SQL-level checks: scratch directory,
//! sessions by number, normalised results, panic / lost-worker detection.
use crate::scratch::Scratch;
use crate::sqlmodel::Val;
use axmosdb::runtime::QueryResult;
use axmosdb::tcp::session::Session;
use axmosdb::{DBConfig, DataType, Database};
use serde::{Deserialize, Serialize};
use std::collections::BTreeMap;
use std::path::PathBuf;

#[derive(Clone, Copy, Debug, PartialEq, Eq, Serialize, Deserialize, Hash)]
pub struct Cfg {
    pub page_size: u32,
    pub cache: u32,
    pub pool: u8,
    pub min_keys: u8,
    pub siblings: u8,
}

impl Default for Cfg {
    fn default() -> Self {
        Cfg { page_size: 4096, cache: 512, pool: 2, min_keys: 3, siblings: 2 }
    }
}

impl Cfg {
    pub fn to_db(&self) -> DBConfig {
        DBConfig::new(self.page_size as usize, self.cache as usize, self.pool as usize, self.min_keys as usize, self.siblings as usize)
    }
}

#[derive(Clone, Debug, PartialEq)]
pub enum Out {
    Rows { cols: Vec<String>, rows: Vec<Vec<Val>> },
    Affected(u64),
    Ddl(String),
}

#[derive(Clone, Debug, PartialEq)]
pub enum Err {
    /// The engine returned an error.
    Error(String),
    /// A pool worker died (panic): signature of the panic.
    Panic(String),
}

impl Err {
    pub fn text(&self) -> String {
        match self {
            Err::Error(s) => s.clone(),
            Err::Panic(s) => format!("PANIC {s}"),
        }
    }
}

pub fn to_val(d: &DataType) -> Val {
    match d {
        DataType::Null => Val::Null,
        DataType::Bool(b) => Val::Bool(b.0),
        DataType::Int(i) => Val::Int(i.0 as i64),
        DataType::BigInt(i) => Val::Int(i.0),
        DataType::UInt(i) => Val::Int(i.0 as i64),
        DataType::BigUInt(i) => {
            if i.0 <= i64::MAX as u64 {
                Val::Int(i.0 as i64)
            } else {
                Val::Dbl(i.0 as f64)
            }
        }
        DataType::Float(f) => Val::Dbl(f.0 as f64),
        DataType::Double(f) => Val::Dbl(f.0),
        DataType::Blob(b) => match b.data() {
            Ok(bytes) => Val::Text(String::from_utf8_lossy(bytes).into_owned()),
            Err(_) => Val::Text("<undecodable blob>".into()),
        },
    }
}

pub fn convert(r: QueryResult) -> Out {
    match r {
        QueryResult::Rows(rows) => {
            let cols = (0..rows.num_columns()).map(|i| rows.column(i).unwrap_or("?").to_string()).collect();
            let data = rows.iterrows().map(|row| row.iter().map(to_val).collect()).collect();
            Out::Rows { cols, rows: data }
        }
        QueryResult::RowsAffected(n) => Out::Affected(n),
        QueryResult::Ddl(d) => Out::Ddl(format!("{d:?}")),
    }
}

pub struct Db {
    pub scratch: Scratch,
    pub path: PathBuf,
    pub cfg: Cfg,
    db: Option<Database>,
    sessions: BTreeMap<u8, Session>,
    /// number of pool workers lost to panics since the last (re)open
    pub lost_workers: usize,
}

fn classify(text: String) -> Err {
    if text.contains("Task channel closed") {
        let recs = crate::panics::take();
        let sig = recs.last().map(|r| r.signature()).unwrap_or_else(|| "unknown panic".into());
        Err::Panic(sig)
    } else {
        Err::Error(text)
    }
}

impl Db {
    pub fn create(cfg: Cfg) -> Result<Db, String> {
        let scratch = Scratch::new();
        let path = scratch.path("db.axm");
        let _ = crate::panics::take();
        let db = Database::create(&path, cfg.to_db()).map_err(|e| e.to_string())?;
        Ok(Db { scratch, path, cfg, db: Some(db), sessions: BTreeMap::new(), lost_workers: 0 })
    }

    /// Opens an existing image (directory already populated).
    pub fn open_at(scratch: Scratch, cfg: Cfg) -> Result<Db, (String, Scratch)> {
        let path = scratch.path("db.axm");
        let _ = crate::panics::take();
        match Database::open(&path, cfg.to_db()) {
            Ok(db) => Ok(Db { scratch, path, cfg, db: Some(db), sessions: BTreeMap::new(), lost_workers: 0 }),
            Err(e) => Err((classify(e.to_string()).text(), scratch)),
        }
    }

    pub fn raw(&self) -> Option<&Database> {
        self.db.as_ref()
    }

    pub fn file_len(&self) -> u64 {
        std::fs::metadata(&self.path).map(|m| m.len()).unwrap_or(0)
    }

    pub fn usable(&self) -> bool {
        self.db.is_some() && self.lost_workers + 1 < self.cfg.pool as usize + 1 && self.lost_workers < self.cfg.pool as usize
    }

    fn note(&mut self, e: Err) -> Err {
        if matches!(e, Err::Panic(_)) {
            self.lost_workers += 1;
        }
        e
    }

    pub fn exec(&mut self, sql: &str) -> Result<Out, Err> {
        if !self.usable() {
            return Err(Err::Error("harness: database has no workers left".into()));
        }
        crate::engine::call_begin(|| format!("execute: {}", crate::engine::truncate(sql, 2000)));
        let r = self.db.as_ref().unwrap().execute(sql);
        crate::engine::call_end();
        match r {
            Ok(q) => Ok(convert(q)),
            Err(e) => {
                let e = classify(e.to_string());
                Err(self.note(e))
            }
        }
    }

    pub fn exec_batch(&mut self, sqls: &[String]) -> Result<Vec<Out>, Err> {
        if !self.usable() {
            return Err(Err::Error("harness: database has no workers left".into()));
        }
        let refs: Vec<&str> = sqls.iter().map(|s| s.as_str()).collect();
        crate::engine::call_begin(|| format!("execute_batch: {:?}", refs));
        let r = self.db.as_ref().unwrap().execute_batch(&refs);
        crate::engine::call_end();
        match r {
            Ok(q) => Ok(q.into_iter().map(convert).collect()),
            Err(e) => {
                let e = classify(e.to_string());
                Err(self.note(e))
            }
        }
    }

    pub fn explain(&mut self, sql: &str) -> Result<String, Err> {
        if !self.usable() {
            return Err(Err::Error("harness: database has no workers left".into()));
        }
        crate::engine::call_begin(|| format!("explain: {sql}"));
        let r = self.db.as_ref().unwrap().explain(sql);
        crate::engine::call_end();
        r.map_err(|e| {
            let e = classify(e.to_string());
            self.note(e)
        })
    }

    pub fn begin(&mut self, s: u8) -> Result<(), Err> {
        if !self.usable() {
            return Err(Err::Error("harness: database has no workers left".into()));
        }
        match self.db.as_ref().unwrap().session() {
            Ok(sess) => {
                self.sessions.insert(s, sess);
                Ok(())
            }
            Err(e) => Err(classify(e.to_string())),
        }
    }

    pub fn has_session(&self, s: u8) -> bool {
        self.sessions.contains_key(&s)
    }

    pub fn open_sessions(&self) -> Vec<u8> {
        self.sessions.keys().copied().collect()
    }

    pub fn sexec(&mut self, s: u8, sql: &str) -> Result<Out, Err> {
        if !self.usable() {
            return Err(Err::Error("harness: database has no workers left".into()));
        }
        let Some(sess) = self.sessions.get_mut(&s) else { return Err(Err::Error("harness: no such session".into())) };
        crate::engine::call_begin(|| format!("session {s} execute: {}", crate::engine::truncate(sql, 2000)));
        let r = sess.execute(sql);
        crate::engine::call_end();
        match r {
            Ok(q) => Ok(convert(q)),
            Err(e) => {
                let e = classify(e.to_string());
                Err(self.note(e))
            }
        }
    }

    pub fn commit(&mut self, s: u8) -> Result<(), Err> {
        let Some(mut sess) = self.sessions.remove(&s) else { return Err(Err::Error("harness: no such session".into())) };
        crate::engine::call_begin(|| format!("session {s} commit"));
        let r = sess.commit_transaction();
        // Session::drop would now abort the (already committed) transaction: harmless by the engine's own usage (the server does the same)
        drop(sess);
        crate::engine::call_end();
        r.map_err(|e| classify(e.to_string()))
    }

    pub fn rollback(&mut self, s: u8) -> Result<(), Err> {
        let Some(mut sess) = self.sessions.remove(&s) else { return Err(Err::Error("harness: no such session".into())) };
        crate::engine::call_begin(|| format!("session {s} rollback"));
        let r = sess.abort_transaction();
        drop(sess);
        crate::engine::call_end();
        r.map_err(|e| classify(e.to_string()))
    }

    pub fn drop_session(&mut self, s: u8) {
        crate::engine::call_begin(|| format!("session {s} drop"));
        self.sessions.remove(&s);
        crate::engine::call_end();
    }

    pub fn flush(&mut self) -> Result<(), Err> {
        crate::engine::call_begin(|| "flush".into());
        let r = self.db.as_ref().unwrap().flush();
        crate::engine::call_end();
        r.map_err(|e| classify(e.to_string()))
    }

    pub fn vacuum(&mut self) -> Result<(), Err> {
        if !self.usable() {
            return Err(Err::Error("harness: database has no workers left".into()));
        }
        crate::engine::call_begin(|| "vacuum".into());
        let r = self.db.as_ref().unwrap().vacuum();
        crate::engine::call_end();
        r.map(|_| ()).map_err(|e| {
            let e = classify(e.to_string());
            self.note(e)
        })
    }

    pub fn analyze(&mut self) -> Result<(), Err> {
        if !self.usable() {
            return Err(Err::Error("harness: database has no workers left".into()));
        }
        crate::engine::call_begin(|| "analyze".into());
        let r = self.db.as_ref().unwrap().analyze(1.0, 10_000);
        crate::engine::call_end();
        r.map_err(|e| {
            let e = classify(e.to_string());
            self.note(e)
        })
    }

    /// Closes (drop = flush) and reopens with `cfg`.
    pub fn reopen(&mut self, cfg: Cfg) -> Result<(), Err> {
        self.sessions.clear();
        crate::engine::call_begin(|| "close".into());
        self.db = None;
        crate::engine::call_end();
        crate::engine::call_begin(|| "open".into());
        let r = Database::open(&self.path, cfg.to_db());
        crate::engine::call_end();
        match r {
            Ok(db) => {
                self.db = Some(db);
                self.cfg = cfg;
                self.lost_workers = 0;
                Ok(())
            }
            Err(e) => Err(classify(e.to_string())),
        }
    }

    /// Drops the handle without the final flush being observable to callers (still flushes: Drop).
    pub fn close(&mut self) {
        self.sessions.clear();
        crate::engine::call_begin(|| "close".into());
        self.db = None;
        crate::engine::call_end();
    }
}

impl Drop for Db {
    fn drop(&mut self) {
        self.sessions.clear();
        crate::engine::call_begin(|| "drop database".into());
        self.db = None;
        crate::engine::call_end();
    }
}
