//! Reference model for SQL-level histories (DESIGN.md §1.5): values, table definitions,
//! versioned state, snapshot-isolation transactions and the semantics of the statement
//! shapes the workload generator emits. Shares no code with the engine.

use serde::{Deserialize, Serialize};
use std::collections::BTreeMap;

#[derive(Clone, Debug, PartialEq, Serialize, Deserialize)]
pub enum Val {
    Null,
    Bool(bool),
    Int(i64),
    Dbl(f64),
    Text(String),
}

impl Eq for Val {}

impl std::hash::Hash for Val {
    fn hash<H: std::hash::Hasher>(&self, h: &mut H) {
        self.key().hash(h)
    }
}

impl Val {
    /// Canonical comparison key for multisets: numbers by value (Int 2 == Dbl 2.0).
    pub fn key(&self) -> String {
        match self {
            Val::Null => "N".into(),
            Val::Bool(b) => format!("B{b}"),
            Val::Int(i) => format!("#{i}"),
            Val::Dbl(d) => {
                if d.fract() == 0.0 && d.abs() < 9e15 {
                    format!("#{}", *d as i64)
                } else {
                    format!("#{d}")
                }
            }
            Val::Text(s) => format!("T{s}"),
        }
    }
    pub fn is_null(&self) -> bool {
        matches!(self, Val::Null)
    }
    pub fn sql(&self) -> String {
        match self {
            Val::Null => "NULL".into(),
            Val::Bool(true) => "TRUE".into(),
            Val::Bool(false) => "FALSE".into(),
            Val::Int(i) => i.to_string(),
            Val::Dbl(d) => {
                // the lexer has no exponent syntax: plain decimal notation
                let s = format!("{d:.4}");
                s
            }
            Val::Text(s) => format!("'{}'", s.replace('\'', "''")),
        }
    }
    pub fn as_f64(&self) -> Option<f64> {
        match self {
            Val::Int(i) => Some(*i as f64),
            Val::Dbl(d) => Some(*d),
            _ => None,
        }
    }
}

/// SQL three-valued comparison; None = UNKNOWN.
pub fn cmp_vals(a: &Val, b: &Val) -> Option<std::cmp::Ordering> {
    match (a, b) {
        (Val::Null, _) | (_, Val::Null) => None,
        (Val::Int(x), Val::Int(y)) => Some(x.cmp(y)),
        (Val::Text(x), Val::Text(y)) => Some(x.as_bytes().cmp(y.as_bytes())),
        (Val::Bool(x), Val::Bool(y)) => Some(x.cmp(y)),
        _ => match (a.as_f64(), b.as_f64()) {
            (Some(x), Some(y)) => x.partial_cmp(&y),
            _ => None,
        },
    }
}

#[derive(Clone, Copy, Debug, PartialEq, Eq, Serialize, Deserialize, Hash)]
pub enum Ty {
    Int,
    BigInt,
    Double,
    Text,
    Bool,
}

impl Ty {
    pub fn sql(&self) -> &'static str {
        match self {
            Ty::Int => "INT",
            Ty::BigInt => "BIGINT",
            Ty::Double => "DOUBLE",
            Ty::Text => "TEXT",
            Ty::Bool => "BOOL",
        }
    }
}

#[derive(Clone, Debug, PartialEq, Serialize, Deserialize)]
pub struct ColDef {
    pub name: String,
    pub ty: Ty,
    pub not_null: bool,
    pub default: Option<Val>,
}

#[derive(Clone, Debug, PartialEq, Serialize, Deserialize)]
pub struct TableDef {
    pub name: String,
    pub cols: Vec<ColDef>,
    /// PRIMARY KEY / UNIQUE constraints and unique indexes: column index lists.
    pub uniques: Vec<Vec<usize>>,
    /// index of the entry of `uniques` that is the primary key (implies NOT NULL?) - not enforced as NOT NULL by the engine
    pub pk: Option<usize>,
    /// names of indexes created with CREATE UNIQUE INDEX
    #[serde(default)]
    pub index_names: Vec<String>,
}

#[derive(Clone, Debug, PartialEq, Serialize, Deserialize)]
pub struct Table {
    pub def: TableDef,
    pub rows: BTreeMap<u64, Vec<Val>>,
}

/// A (committed or transaction-local) database state.
#[derive(Clone, Debug, PartialEq, Default, Serialize, Deserialize)]
pub struct State {
    pub tables: BTreeMap<String, Table>,
}

pub fn multiset(rows: &[Vec<Val>]) -> BTreeMap<String, usize> {
    let mut m = BTreeMap::new();
    for r in rows {
        let k: Vec<String> = r.iter().map(|v| v.key()).collect();
        *m.entry(k.join("\u{1}")).or_insert(0) += 1;
    }
    m
}

impl State {
    pub fn rows_of(&self, t: &str) -> Vec<Vec<Val>> {
        self.tables.get(t).map(|t| t.rows.values().cloned().collect()).unwrap_or_default()
    }
}

// ---------------------------------------------------------------------------------------
// concrete statements
// ---------------------------------------------------------------------------------------

#[derive(Clone, Copy, Debug, PartialEq, Eq, Serialize, Deserialize, Hash)]
pub enum CmpOp {
    Eq,
    Ne,
    Lt,
    Le,
    Gt,
    Ge,
}

impl CmpOp {
    pub fn sql(&self) -> &'static str {
        match self {
            CmpOp::Eq => "=",
            CmpOp::Ne => "<>",
            CmpOp::Lt => "<",
            CmpOp::Le => "<=",
            CmpOp::Gt => ">",
            CmpOp::Ge => ">=",
        }
    }
    pub fn test(&self, o: std::cmp::Ordering) -> bool {
        use std::cmp::Ordering::*;
        match self {
            CmpOp::Eq => o == Equal,
            CmpOp::Ne => o != Equal,
            CmpOp::Lt => o == Less,
            CmpOp::Le => o != Greater,
            CmpOp::Gt => o == Greater,
            CmpOp::Ge => o != Less,
        }
    }
}

#[derive(Clone, Debug, PartialEq, Serialize, Deserialize)]
pub enum Pred {
    True,
    Cmp { col: usize, op: CmpOp, val: Val },
    IsNull { col: usize },
    And(Box<Pred>, Box<Pred>),
}

impl Pred {
    /// Three-valued evaluation; rows qualify only on TRUE.
    pub fn eval(&self, row: &[Val]) -> Option<bool> {
        match self {
            Pred::True => Some(true),
            Pred::Cmp { col, op, val } => cmp_vals(&row[*col], val).map(|o| op.test(o)),
            Pred::IsNull { col } => Some(row[*col].is_null()),
            Pred::And(a, b) => match (a.eval(row), b.eval(row)) {
                (Some(false), _) | (_, Some(false)) => Some(false),
                (Some(true), Some(true)) => Some(true),
                _ => None,
            },
        }
    }
    pub fn sql(&self, def: &TableDef) -> String {
        match self {
            Pred::True => String::new(),
            Pred::Cmp { col, op, val } => format!("{} {} {}", def.cols[*col].name, op.sql(), val.sql()),
            Pred::IsNull { col } => format!("{} IS NULL", def.cols[*col].name),
            Pred::And(a, b) => format!("{} AND {}", a.sql(def), b.sql(def)),
        }
    }
    pub fn where_sql(&self, def: &TableDef) -> String {
        match self {
            Pred::True => String::new(),
            p => format!(" WHERE {}", p.sql(def)),
        }
    }
}

#[derive(Clone, Debug, PartialEq, Serialize, Deserialize)]
pub enum SetExpr {
    Lit(Val),
    /// col = col + k (integer columns)
    Add(i64),
}

#[derive(Clone, Debug, PartialEq, Serialize, Deserialize)]
pub enum Stmt {
    CreateTable(TableDef),
    DropTable { table: String },
    CreateUniqueIndex { name: String, table: String, cols: Vec<usize> },
    Insert { table: String, cols: Option<Vec<usize>>, rows: Vec<Vec<Val>> },
    Update { table: String, col: usize, set: SetExpr, pred: Pred },
    Delete { table: String, pred: Pred },
    Select { table: String, pred: Pred },
    AddColumn { table: String, col: ColDef },
    DropColumn { table: String, col: usize },
    /// Arbitrary text the model expects to fail without effect.
    /// ALTER TABLE t ALTER COLUMN c {SET DEFAULT v | DROP DEFAULT | SET NOT NULL | DROP NOT NULL}
    AlterCol { table: String, col: usize, change: ColChange },
    /// a statement that succeeds without any effect (CREATE TABLE IF NOT EXISTS on an existing table)
    NoOpDdl { sql: String },
    Bad { sql: String, why: String },
}

#[derive(Clone, Debug, PartialEq, Eq, Serialize, Deserialize)]
pub enum ErrClass {
    UnknownObject,
    AlreadyExists,
    Constraint,
    Other,
}

#[derive(Clone, Debug, PartialEq)]
pub enum MOut {
    Rows(Vec<Vec<Val>>),
    Affected(u64),
    Ddl,
    Err(ErrClass, String),
}

#[derive(Clone, Debug, PartialEq, Serialize, Deserialize)]
pub enum ColChange {
    SetDefault(Val),
    DropDefault,
    SetNotNull,
    DropNotNull,
}

/// Row-level effect of a successful statement, re-playable on another state (SI commit).
#[derive(Clone, Debug, PartialEq, Serialize, Deserialize)]
pub enum Effect {
    AlterCol { table: String, col: usize, change: ColChange },
    Create(TableDef),
    Drop(String),
    AddUnique { table: String, cols: Vec<usize>, name: String },
    AddColumn { table: String, col: ColDef },
    DropColumn { table: String, col: usize },
    Insert { table: String, id: u64, row: Vec<Val> },
    Update { table: String, id: u64, row: Vec<Val> },
    Delete { table: String, id: u64 },
}

impl State {
    pub fn apply(&mut self, e: &Effect) {
        match e {
            Effect::Create(def) => {
                self.tables.insert(def.name.clone(), Table { def: def.clone(), rows: BTreeMap::new() });
            }
            Effect::Drop(n) => {
                self.tables.remove(n);
            }
            Effect::AddUnique { table, cols, name } => {
                if let Some(t) = self.tables.get_mut(table) {
                    if !t.def.uniques.contains(cols) {
                        t.def.uniques.push(cols.clone());
                    }
                    t.def.index_names.push(name.clone());
                }
            }
            Effect::AlterCol { table, col, change } => {
                if let Some(c) = self.tables.get_mut(table).and_then(|t| t.def.cols.get_mut(*col)) {
                    match change {
                        ColChange::SetDefault(v) => c.default = Some(v.clone()),
                        ColChange::DropDefault => c.default = None,
                        ColChange::SetNotNull => c.not_null = true,
                        ColChange::DropNotNull => c.not_null = false,
                    }
                }
            }
            Effect::AddColumn { table, col } => {
                if let Some(t) = self.tables.get_mut(table) {
                    let fill = col.default.clone().unwrap_or(Val::Null);
                    t.def.cols.push(col.clone());
                    for r in t.rows.values_mut() {
                        r.push(fill.clone());
                    }
                }
            }
            Effect::DropColumn { table, col } => {
                if let Some(t) = self.tables.get_mut(table) {
                    if *col < t.def.cols.len() {
                        t.def.cols.remove(*col);
                        for r in t.rows.values_mut() {
                            if *col < r.len() {
                                r.remove(*col);
                            }
                        }
                        for u in t.def.uniques.iter_mut() {
                            for c in u.iter_mut() {
                                if *c > *col {
                                    *c -= 1;
                                }
                            }
                        }
                    }
                }
            }
            Effect::Insert { table, id, row } | Effect::Update { table, id, row } => {
                if let Some(t) = self.tables.get_mut(table) {
                    if row.len() == t.def.cols.len() {
                        t.rows.insert(*id, row.clone());
                    }
                }
            }
            Effect::Delete { table, id } => {
                if let Some(t) = self.tables.get_mut(table) {
                    t.rows.remove(id);
                }
            }
        }
    }
}

fn unique_conflict(def: &TableDef, rows: &BTreeMap<u64, Vec<Val>>, cand: &[Val], skip: Option<u64>) -> Option<String> {
    for u in &def.uniques {
        if u.iter().any(|c| cand[*c].is_null()) {
            continue; // NULLs never conflict
        }
        for (id, r) in rows {
            if Some(*id) == skip {
                continue;
            }
            if u.iter().all(|c| cmp_vals(&r[*c], &cand[*c]) == Some(std::cmp::Ordering::Equal)) {
                return Some(format!("unique({:?})", u.iter().map(|c| def.cols[*c].name.clone()).collect::<Vec<_>>()));
            }
        }
    }
    None
}

fn not_null_violation(def: &TableDef, row: &[Val]) -> Option<String> {
    def.cols.iter().zip(row).find(|(c, v)| c.not_null && v.is_null()).map(|(c, _)| format!("not null {}", c.name))
}

pub fn stmt_sql(s: &Stmt, view: &State) -> String {
    let dummy = TableDef { name: String::new(), cols: vec![], uniques: vec![], pk: None, index_names: vec![] };
    let def_of = |t: &str| view.tables.get(t).map(|t| &t.def).unwrap_or(&dummy);
    match s {
        Stmt::CreateTable(def) => {
            let mut parts: Vec<String> = def
                .cols
                .iter()
                .map(|c| {
                    format!(
                        "{} {}{}{}",
                        c.name,
                        c.ty.sql(),
                        if c.not_null { " NOT NULL" } else { "" },
                        c.default.as_ref().map(|d| format!(" DEFAULT {}", d.sql())).unwrap_or_default()
                    )
                })
                .collect();
            for (i, u) in def.uniques.iter().enumerate() {
                let cols: Vec<&str> = u.iter().map(|c| def.cols[*c].name.as_str()).collect();
                parts.push(format!("{} ({})", if def.pk == Some(i) { "PRIMARY KEY" } else { "UNIQUE" }, cols.join(", ")));
            }
            format!("CREATE TABLE {} ({})", def.name, parts.join(", "))
        }
        Stmt::DropTable { table } => format!("DROP TABLE {table}"),
        Stmt::CreateUniqueIndex { name, table, cols } => {
            let d = def_of(table);
            let cs: Vec<String> = cols.iter().map(|c| d.cols.get(*c).map(|c| c.name.clone()).unwrap_or_else(|| format!("c{c}"))).collect();
            format!("CREATE UNIQUE INDEX {name} ON {table} ({})", cs.join(", "))
        }
        Stmt::Insert { table, cols, rows } => {
            let d = def_of(table);
            let cl = cols
                .as_ref()
                .map(|cs| format!(" ({})", cs.iter().map(|c| d.cols.get(*c).map(|c| c.name.clone()).unwrap_or_else(|| format!("c{c}"))).collect::<Vec<_>>().join(", ")))
                .unwrap_or_default();
            let rs: Vec<String> = rows.iter().map(|r| format!("({})", r.iter().map(|v| v.sql()).collect::<Vec<_>>().join(", "))).collect();
            format!("INSERT INTO {table}{cl} VALUES {}", rs.join(", "))
        }
        Stmt::Update { table, col, set, pred } => {
            let d = def_of(table);
            let cn = d.cols.get(*col).map(|c| c.name.clone()).unwrap_or_else(|| format!("c{col}"));
            let rhs = match set {
                SetExpr::Lit(v) => v.sql(),
                SetExpr::Add(k) if *k >= 0 => format!("{cn} + {k}"),
                SetExpr::Add(k) => format!("{cn} - {}", -k),
            };
            format!("UPDATE {table} SET {cn} = {rhs}{}", pred.where_sql(d))
        }
        Stmt::Delete { table, pred } => format!("DELETE FROM {table}{}", pred.where_sql(def_of(table))),
        Stmt::Select { table, pred } => format!("SELECT * FROM {table}{}", pred.where_sql(def_of(table))),
        Stmt::AddColumn { table, col } => format!(
            "ALTER TABLE {table} ADD COLUMN {} {}{}",
            col.name,
            col.ty.sql(),
            col.default.as_ref().map(|d| format!(" DEFAULT {}", d.sql())).unwrap_or_default()
        ),
        Stmt::DropColumn { table, col } => format!("ALTER TABLE {table} DROP COLUMN {}", def_of(table).cols.get(*col).map(|c| c.name.clone()).unwrap_or_else(|| format!("c{col}"))),
        Stmt::AlterCol { table, col, change } => {
            let cn = def_of(table).cols.get(*col).map(|c| c.name.clone()).unwrap_or_else(|| format!("c{col}"));
            format!("ALTER TABLE {table} ALTER COLUMN {cn} {}", match change {
                ColChange::SetDefault(v) => format!("SET DEFAULT {}", v.sql()),
                ColChange::DropDefault => "DROP DEFAULT".to_string(),
                ColChange::SetNotNull => "SET NOT NULL".to_string(),
                ColChange::DropNotNull => "DROP NOT NULL".to_string(),
            })
        }
        Stmt::NoOpDdl { sql } => sql.clone(),
        Stmt::Bad { sql, .. } => sql.clone(),
    }
}

/// Evaluates `s` on `view`; on success returns the output and the row-level effects (already
/// applied to `view`). On error `view` is unchanged (statement atomicity).
pub fn exec_model(view: &mut State, next_row_id: &mut u64, s: &Stmt) -> (MOut, Vec<Effect>) {
    let mut effects = vec![];
    let out = match s {
        Stmt::CreateTable(def) => {
            if view.tables.contains_key(&def.name) {
                MOut::Err(ErrClass::AlreadyExists, format!("table {} exists", def.name))
            } else {
                effects.push(Effect::Create(def.clone()));
                MOut::Ddl
            }
        }
        Stmt::DropTable { table } => {
            if view.tables.contains_key(table) {
                effects.push(Effect::Drop(table.clone()));
                MOut::Ddl
            } else {
                MOut::Err(ErrClass::UnknownObject, format!("no table {table}"))
            }
        }
        Stmt::CreateUniqueIndex { table, cols, name } => match view.tables.get(table) {
            None => MOut::Err(ErrClass::UnknownObject, format!("no table {table}")),
            Some(t) => {
                if cols.iter().any(|c| *c >= t.def.cols.len()) {
                    MOut::Err(ErrClass::UnknownObject, "no such column".into())
                } else if view.tables.values().any(|t| t.def.index_names.contains(name)) {
                    MOut::Err(ErrClass::AlreadyExists, "index exists".into())
                } else {
                    // existing duplicates make the index creation fail
                    let mut tmp = t.def.clone();
                    tmp.uniques = vec![cols.clone()];
                    let mut seen: BTreeMap<u64, Vec<Val>> = BTreeMap::new();
                    let mut dup = None;
                    for (id, r) in &t.rows {
                        if let Some(d) = unique_conflict(&tmp, &seen, r, None) {
                            dup = Some(d);
                            break;
                        }
                        seen.insert(*id, r.clone());
                    }
                    match dup {
                        Some(d) => MOut::Err(ErrClass::Constraint, d),
                        None => {
                            effects.push(Effect::AddUnique { table: table.clone(), cols: cols.clone(), name: name.clone() });
                            MOut::Ddl
                        }
                    }
                }
            }
        },
        Stmt::Insert { table, cols, rows } => match view.tables.get(table) {
            None => MOut::Err(ErrClass::UnknownObject, format!("no table {table}")),
            Some(t) => {
                let def = &t.def;
                let mut staged = t.rows.clone();
                let mut err = None;
                let mut new_rows = vec![];
                for r in rows {
                    let full: Vec<Val> = match cols {
                        None => {
                            if r.len() != def.cols.len() {
                                err = Some((ErrClass::Other, "arity".to_string()));
                                break;
                            }
                            r.clone()
                        }
                        Some(cs) => {
                            if cs.iter().any(|c| *c >= def.cols.len()) || cs.len() != r.len() {
                                err = Some((ErrClass::UnknownObject, "column".to_string()));
                                break;
                            }
                            let mut full: Vec<Val> = def.cols.iter().map(|c| c.default.clone().unwrap_or(Val::Null)).collect();
                            for (c, v) in cs.iter().zip(r) {
                                full[*c] = v.clone();
                            }
                            full
                        }
                    };
                    if let Some(v) = not_null_violation(def, &full) {
                        err = Some((ErrClass::Constraint, v));
                        break;
                    }
                    if let Some(v) = unique_conflict(def, &staged, &full, None) {
                        err = Some((ErrClass::Constraint, v));
                        break;
                    }
                    let id = *next_row_id + new_rows.len() as u64;
                    staged.insert(id, full.clone());
                    new_rows.push((id, full));
                }
                match err {
                    Some((c, m)) => MOut::Err(c, m),
                    None => {
                        *next_row_id += new_rows.len() as u64;
                        let n = new_rows.len() as u64;
                        for (id, row) in new_rows {
                            effects.push(Effect::Insert { table: table.clone(), id, row });
                        }
                        MOut::Affected(n)
                    }
                }
            }
        },
        Stmt::Update { table, col, set, pred } => match view.tables.get(table) {
            None => MOut::Err(ErrClass::UnknownObject, format!("no table {table}")),
            Some(t) => {
                let def = &t.def;
                if *col >= def.cols.len() {
                    MOut::Err(ErrClass::UnknownObject, "column".into())
                } else {
                    let mut staged = t.rows.clone();
                    let mut err = None;
                    let mut changed = vec![];
                    for (id, r) in &t.rows {
                        if pred.eval(r) != Some(true) {
                            continue;
                        }
                        let mut nr = r.clone();
                        nr[*col] = match set {
                            SetExpr::Lit(v) => v.clone(),
                            SetExpr::Add(k) => match &r[*col] {
                                Val::Int(i) => {
                                    let (lo, hi) = if def.cols[*col].ty == Ty::Int { (i32::MIN as i64, i32::MAX as i64) } else { (i64::MIN, i64::MAX) };
                                    match i.checked_add(*k) {
                                        Some(v) if v >= lo && v <= hi => Val::Int(v),
                                        _ => {
                                            err = Some("integer overflow".to_string());
                                            break;
                                        }
                                    }
                                }
                                Val::Dbl(d) => Val::Dbl(d + *k as f64),
                                _ => Val::Null,
                            },
                        };
                        if let Some(v) = not_null_violation(def, &nr) {
                            err = Some(v);
                            break;
                        }
                        if let Some(v) = unique_conflict(def, &staged, &nr, Some(*id)) {
                            err = Some(v);
                            break;
                        }
                        staged.insert(*id, nr.clone());
                        changed.push((*id, nr));
                    }
                    match err {
                        Some(m) if m == "integer overflow" => MOut::Err(ErrClass::Other, m),
                        Some(m) => MOut::Err(ErrClass::Constraint, m),
                        None => {
                            let n = changed.len() as u64;
                            for (id, row) in changed {
                                effects.push(Effect::Update { table: table.clone(), id, row });
                            }
                            MOut::Affected(n)
                        }
                    }
                }
            }
        },
        Stmt::Delete { table, pred } => match view.tables.get(table) {
            None => MOut::Err(ErrClass::UnknownObject, format!("no table {table}")),
            Some(t) => {
                let ids: Vec<u64> = t.rows.iter().filter(|(_, r)| pred.eval(r) == Some(true)).map(|(id, _)| *id).collect();
                for id in &ids {
                    effects.push(Effect::Delete { table: table.clone(), id: *id });
                }
                MOut::Affected(ids.len() as u64)
            }
        },
        Stmt::Select { table, pred } => match view.tables.get(table) {
            None => MOut::Err(ErrClass::UnknownObject, format!("no table {table}")),
            Some(t) => MOut::Rows(t.rows.values().filter(|r| pred.eval(r) == Some(true)).cloned().collect()),
        },
        Stmt::AddColumn { table, col } => match view.tables.get(table) {
            None => MOut::Err(ErrClass::UnknownObject, format!("no table {table}")),
            Some(t) => {
                if t.def.cols.iter().any(|c| c.name == col.name) {
                    MOut::Err(ErrClass::AlreadyExists, "column exists".into())
                } else {
                    effects.push(Effect::AddColumn { table: table.clone(), col: col.clone() });
                    MOut::Ddl
                }
            }
        },
        Stmt::DropColumn { table, col } => match view.tables.get(table) {
            None => MOut::Err(ErrClass::UnknownObject, format!("no table {table}")),
            Some(t) => {
                if *col >= t.def.cols.len() || t.def.cols.len() <= 1 || t.def.uniques.iter().any(|u| u.contains(col)) {
                    MOut::Err(ErrClass::Other, "cannot drop this column".into())
                } else {
                    effects.push(Effect::DropColumn { table: table.clone(), col: *col });
                    MOut::Ddl
                }
            }
        },
        Stmt::AlterCol { table, col, change } => match view.tables.get(table) {
            None => MOut::Err(ErrClass::UnknownObject, format!("no table {table}")),
            Some(t) if *col >= t.def.cols.len() => MOut::Err(ErrClass::Other, "unknown column".into()),
            Some(t) if *change == ColChange::SetNotNull && t.rows.values().any(|r| r[*col].is_null()) => MOut::Err(ErrClass::Constraint, format!("column {col} holds a NULL")),
            Some(_) => {
                effects.push(Effect::AlterCol { table: table.clone(), col: *col, change: change.clone() });
                MOut::Ddl
            }
        },
        Stmt::NoOpDdl { .. } => MOut::Ddl,
        Stmt::Bad { why, .. } => MOut::Err(ErrClass::Other, why.clone()),
    };
    for e in &effects {
        view.apply(e);
    }
    (out, effects)
}

/// Whether an UPDATE through `SetExpr` can create a transient duplicate inside one statement
/// (set-oriented semantics vs row-at-a-time checking differ there): c = c + k on a unique column
/// with several qualifying rows. Such statements are not generated.
pub fn update_is_order_sensitive(view: &State, s: &Stmt) -> bool {
    if let Stmt::Update { table, col, pred, .. } = s {
        if let Some(t) = view.tables.get(table) {
            let on_unique = t.def.uniques.iter().any(|u| u.contains(col));
            let n = t.rows.values().filter(|r| pred.eval(r) == Some(true)).count();
            return on_unique && n > 1;
        }
    }
    false
}

// ---------------------------------------------------------------------------------------
// transactions (snapshot isolation by construction)
// ---------------------------------------------------------------------------------------

#[derive(Clone, Debug)]
pub struct Txn {
    pub view: State,
    pub effects: Vec<Effect>,
    /// commit counter value at begin
    pub begin_epoch: u64,
    pub wrote: bool,
}

#[derive(Clone, Debug, Default)]
pub struct Model {
    pub committed: State,
    pub next_row_id: u64,
    pub epoch: u64,
    /// (epoch at commit, rows written) for first-committer-wins checks
    pub commit_log: Vec<(u64, Vec<(String, u64)>)>,
}

impl Model {
    pub fn begin(&self) -> Txn {
        Txn { view: self.committed.clone(), effects: vec![], begin_epoch: self.epoch, wrote: false }
    }
    pub fn exec(&mut self, txn: &mut Txn, s: &Stmt) -> MOut {
        let (out, eff) = exec_model(&mut txn.view, &mut self.next_row_id, s);
        if !eff.is_empty() {
            txn.wrote = true;
        }
        txn.effects.extend(eff);
        out
    }
    /// Rows (table,id) updated or deleted by the transaction.
    pub fn write_set(txn: &Txn) -> Vec<(String, u64)> {
        let mut v = vec![];
        for e in &txn.effects {
            match e {
                Effect::Update { table, id, .. } | Effect::Delete { table, id } => v.push((table.clone(), *id)),
                _ => {}
            }
        }
        v.sort();
        v.dedup();
        v
    }
    /// True when a transaction that committed after `txn` began wrote one of the same rows.
    pub fn ww_conflict(&self, txn: &Txn) -> bool {
        let ws = Self::write_set(txn);
        self.commit_log.iter().any(|(ep, rows)| *ep > txn.begin_epoch && rows.iter().any(|r| ws.contains(r)))
    }
    pub fn commit(&mut self, txn: Txn) {
        for e in &txn.effects {
            self.committed.apply(e);
        }
        self.epoch += 1;
        let ws = Self::write_set(&txn);
        if !ws.is_empty() {
            self.commit_log.push((self.epoch, ws));
        }
    }
    pub fn autocommit(&mut self, s: &Stmt) -> MOut {
        let mut t = self.begin();
        let out = self.exec(&mut t, s);
        if !matches!(out, MOut::Err(..)) {
            self.commit(t);
        }
        out
    }
}

/// True when creating this unique index must fail because the data already has duplicates.
pub fn create_index_hits_duplicates(view: &State, s: &Stmt) -> bool {
    let mut v = view.clone();
    let mut n = u64::MAX / 2;
    matches!(s, Stmt::CreateUniqueIndex { .. }) && matches!(exec_model(&mut v, &mut n, s).0, MOut::Err(ErrClass::Constraint, _))
}
