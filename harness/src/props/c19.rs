//! C19 — values compare, hash, cast and round-trip consistently. DESIGN.md §2/C19.
use crate::dbx::{Cfg, Db, Out};
use crate::engine::*;
use crate::sqlmodel::{Val, cmp_vals};
use axmosdb::types::bool::Bool;
use axmosdb::types::{Blob, DataType, Float32, Float64, Int32, Int64, UInt32, UInt64};
use proptest::prelude::*;
use serde::{Deserialize, Serialize};
use serde_json::Value;
use std::cmp::Ordering;
use std::collections::BTreeMap;
use std::hash::{Hash, Hasher};

pub fn info() -> PropertyInfo {
    PropertyInfo {
        id: "C19",
        level: "exploration",
        rule: "(A) value laws on the public DataType: every pair and triple of a boundary grid per kind (NULL, BOOL, INT, BIGINT, UINT, BIGUINT, FLOAT, DOUBLE, TEXT; integers at MIN/MAX/±1/2^24/2^31/2^32/2^53 neighbours, floats incl. -0.0, NaN, infinities, subnormals, 2^24 and 2^53 neighbours, text incl. empty, prefixes, strings equal on whole 8-byte blocks, non-ASCII) is enumerated exhaustively (thorough) or by a fixed stride (quick), plus random triples: == symmetric and transitive, a == a except NaN, == implies equal hashes, partial_cmp antisymmetric and transitive, Equal iff ==, total within a kind (NaN aside), numeric order and equality equal to the exact mathematical comparison (integers as i128, floats exactly), text order equal to bytewise lexicographic order, cast to the own kind is the identity and widening casts keep the value. (B) SQL consistency: a single-column table of each SQL type is filled with generated values (NULLs, duplicates, boundaries); SELECT returns exactly what was stored; ORDER BY (asc/desc) returns a permutation sorted by the reference order; DISTINCT and GROUP BY form exactly the reference equivalence classes; `c IN (..)` equals the OR of `c = ..`; `=`, `<`, `>=` against each stored value select the reference rows; with a unique index on distinct values every point lookup and a range scan agree with the table. non-trivial: (A) a pair that is related (equal, or of comparable kinds); (B) a table with >= 2 distinct non-NULL values; distinct = hash of the case.",
        assumptions: &[
            "reference order: integers exactly, floats by IEEE partial order, integer/float mixes by exact rational value, text bytewise, FALSE < TRUE; NULL compares to nothing; NaN equals nothing",
            "FLOAT columns are fed values exactly representable in f32 (the literal-to-f32 rounding of other values is not asserted)",
            "-0.0 and 0.0 are the same value (== says so); which of the two comes back from storage is not asserted",
        ],
        budget_s: (420, 3600),
        hang_is_violation: false,
        max_shards: 16,
        run_shard,
        replay,
    }
}

// ---------------------------------------------------------------------------------------
// (A) value laws
// ---------------------------------------------------------------------------------------

#[derive(Clone, Debug, Serialize, Deserialize, PartialEq)]
pub enum V {
    Null,
    Bool(bool),
    Int(i32),
    BigInt(i64),
    UInt(u32),
    BigUInt(u64),
    Float(u32),  // bit pattern
    Double(u64), // bit pattern
    Text(Vec<u8>),
}

impl Hash for V {
    fn hash<H: Hasher>(&self, h: &mut H) {
        format!("{self:?}").hash(h)
    }
}

impl V {
    pub fn dt(&self) -> DataType {
        match self {
            V::Null => DataType::Null,
            V::Bool(b) => DataType::Bool(Bool(*b)),
            V::Int(i) => DataType::Int(Int32(*i)),
            V::BigInt(i) => DataType::BigInt(Int64(*i)),
            V::UInt(i) => DataType::UInt(UInt32(*i)),
            V::BigUInt(i) => DataType::BigUInt(UInt64(*i)),
            V::Float(b) => DataType::Float(Float32(f32::from_bits(*b))),
            V::Double(b) => DataType::Double(Float64(f64::from_bits(*b))),
            V::Text(t) => DataType::Blob(Blob::from_unencoded_slice(t)),
        }
    }
    fn kind(&self) -> &'static str {
        match self {
            V::Null => "null",
            V::Bool(_) => "bool",
            V::Int(_) => "int",
            V::BigInt(_) => "bigint",
            V::UInt(_) => "uint",
            V::BigUInt(_) => "biguint",
            V::Float(_) => "float",
            V::Double(_) => "double",
            V::Text(_) => "text",
        }
    }
    fn num(&self) -> Option<Num> {
        Some(match self {
            V::Int(i) => Num::I(*i as i128),
            V::BigInt(i) => Num::I(*i as i128),
            V::UInt(i) => Num::I(*i as i128),
            V::BigUInt(i) => Num::I(*i as i128),
            V::Float(b) => Num::F(f32::from_bits(*b) as f64),
            V::Double(b) => Num::F(f64::from_bits(*b)),
            _ => return None,
        })
    }
    fn is_nan(&self) -> bool {
        matches!(self.num(), Some(Num::F(f)) if f.is_nan())
    }
    fn beyond_2p53(&self) -> bool {
        matches!(self.num(), Some(Num::I(i)) if i.abs() > (1i128 << 53))
    }
}

#[derive(Clone, Copy, Debug)]
enum Num {
    I(i128),
    F(f64),
}

/// Exact comparison of two numbers by mathematical value.
fn num_cmp(a: Num, b: Num) -> Option<Ordering> {
    match (a, b) {
        (Num::I(x), Num::I(y)) => Some(x.cmp(&y)),
        (Num::F(x), Num::F(y)) => x.partial_cmp(&y),
        (Num::I(x), Num::F(y)) => int_float_cmp(x, y),
        (Num::F(x), Num::I(y)) => int_float_cmp(y, x).map(|o| o.reverse()),
    }
}

fn int_float_cmp(i: i128, f: f64) -> Option<Ordering> {
    if f.is_nan() {
        return None;
    }
    if f == f64::INFINITY || f >= 1.7e38 {
        return Some(Ordering::Less);
    }
    if f == f64::NEG_INFINITY || f <= -1.7e38 {
        return Some(Ordering::Greater);
    }
    let t = f.trunc();
    let ti = t as i128; // exact: |t| < 2^127
    match i.cmp(&ti) {
        Ordering::Equal => {
            let frac = f - t;
            Some(if frac > 0.0 {
                Ordering::Less
            } else if frac < 0.0 {
                Ordering::Greater
            } else {
                Ordering::Equal
            })
        }
        o => Some(o),
    }
}

/// The reference relation between two values: None = not comparable (NULL, NaN, different categories).
fn ref_cmp(a: &V, b: &V) -> Option<Ordering> {
    match (a, b) {
        (V::Null, _) | (_, V::Null) => None,
        (V::Bool(x), V::Bool(y)) => Some(x.cmp(y)),
        (V::Text(x), V::Text(y)) => Some(x.cmp(y)),
        _ => match (a.num(), b.num()) {
            (Some(x), Some(y)) => num_cmp(x, y),
            _ => None,
        },
    }
}

fn hash_of_dt(d: &DataType) -> u64 {
    let mut h = std::collections::hash_map::DefaultHasher::new();
    d.hash(&mut h);
    h.finish()
}

pub fn grid() -> Vec<V> {
    let mut g = vec![V::Null, V::Bool(false), V::Bool(true)];
    for i in [i32::MIN, i32::MIN + 1, -16777217, -16777216, -2, -1, 0, 1, 2, 16777216, 16777217, i32::MAX - 1, i32::MAX] {
        g.push(V::Int(i));
    }
    let p53 = 1i64 << 53;
    for i in [i64::MIN, i64::MIN + 1, -p53 - 1, -p53, -(1i64 << 32), i32::MIN as i64 - 1, -1, 0, 1, 16777217, i32::MAX as i64 + 1, 1i64 << 32, p53 - 1, p53, p53 + 1, p53 + 2, i64::MAX - 1, i64::MAX] {
        g.push(V::BigInt(i));
    }
    for i in [0u32, 1, 16777217, i32::MAX as u32, i32::MAX as u32 + 1, u32::MAX - 1, u32::MAX] {
        g.push(V::UInt(i));
    }
    for i in [0u64, 1, u32::MAX as u64 + 1, (1u64 << 53) - 1, 1u64 << 53, (1u64 << 53) + 1, i64::MAX as u64, i64::MAX as u64 + 1, u64::MAX - 1, u64::MAX] {
        g.push(V::BigUInt(i));
    }
    for f in [0.0f32, -0.0, 1.0, -1.0, 1.5, 0.1, 16777216.0, 16777218.0, 2147483648.0, f32::MIN_POSITIVE, 1e-45, f32::MAX, f32::MIN, f32::INFINITY, f32::NEG_INFINITY, f32::NAN] {
        g.push(V::Float(f.to_bits()));
    }
    for f in [0.0f64, -0.0, 1.0, -1.0, 1.5, 0.1, 0.1f32 as f64, 16777217.0, 2147483647.0, 2147483648.0, 4294967296.0, 9007199254740992.0, 9007199254740994.0, 9223372036854775808.0, 18446744073709551616.0, f64::MIN_POSITIVE, 5e-324, f64::MAX, f64::MIN, f64::INFINITY, f64::NEG_INFINITY, f64::NAN] {
        g.push(V::Double(f.to_bits()));
    }
    for t in ["", "a", "ab", "abc", "b", "B", "abcdefgh", "abcdefghi", "abcdefgh0", "abcdefghijklmnop", "abcdefghijklmnopq", "abcdefghijklmnop00000000", "abcdefghi_klmnopqrstuvwxyz0123456", "customer_1", "customer_1000000000", "0123456789abcdef9", "0123456789abcdef00000000", "\u{e9}", "e\u{301}", "\u{10ffff}", "\0", "a\0", "a\0b"] {
        g.push(V::Text(t.as_bytes().to_vec()));
    }
    g.push(V::Text(vec![b'x'; 300]));
    g.push(V::Text({
        let mut v = vec![b'x'; 300];
        v.push(b'y');
        v
    }));
    g.push(V::Text(vec![0xff, 0xfe]));
    g.push(V::Text(vec![0x80]));
    g
}

#[derive(Clone, Debug, Serialize, Deserialize, Hash)]
pub struct Triple {
    pub a: V,
    pub b: V,
    pub c: V,
    #[serde(default)]
    pub excluded: Vec<String>,
}

pub fn run_triple(t: &Triple) -> CaseOut {
    let mut out = CaseOut::pass();
    let (a, b, c) = (&t.a, &t.b, &t.c);
    let mut tags: Vec<String> = vec![];
    for v in [a, b, c] {
        tags.push(format!("kind.{}", v.kind()));
        if v.beyond_2p53() {
            tags.push("num.int_beyond_2p53".into());
        }
        if v.is_nan() {
            tags.push("num.nan".into());
        }
    }
    tags.sort();
    tags.dedup();
    if let Some(x) = tags.iter().find(|x| t.excluded.contains(x)) {
        out.excluded.push(x.clone());
        return out;
    }
    let (da, db, dc) = (a.dt(), b.dt(), c.dt());
    let mut evals = 0u64;
    let mut fail = |clause: &str, detail: String| -> CaseOut {
        let mut o = CaseOut::fail(Failure::new(clause, detail).with_tags(tags.clone()));
        o.evals = 1;
        o
    };
    let show = |v: &V| match v {
        V::Float(b) => format!("Float({:?})", f32::from_bits(*b)),
        V::Double(b) => format!("Double({:?})", f64::from_bits(*b)),
        V::Text(t) if t.len() > 40 => format!("Text({} bytes, ..{:?})", t.len(), String::from_utf8_lossy(&t[t.len() - 4..])),
        V::Text(t) => format!("Text({:?})", String::from_utf8_lossy(t)),
        o => format!("{o:?}"),
    };
    // pairwise laws over (a,b), (b,c), (a,c)
    for (x, y, dx, dy) in [(a, b, &da, &db), (b, c, &db, &dc), (a, c, &da, &dc)] {
        evals += 1;
        let (e1, e2) = (dx == dy, dy == dx);
        if e1 != e2 {
            return fail("eq_not_symmetric", format!("{} == {} is {e1}, reversed {e2}", show(x), show(y)));
        }
        if e1 && hash_of_dt(dx) != hash_of_dt(dy) {
            return fail("eq_hash_disagree", format!("{} == {} but their hashes differ", show(x), show(y)));
        }
        let (c1, c2) = (dx.partial_cmp(dy), dy.partial_cmp(dx));
        if c1 != c2.map(|o| o.reverse()) {
            return fail("order_not_antisymmetric", format!("cmp({}, {}) = {c1:?} but cmp reversed = {c2:?}", show(x), show(y)));
        }
        if (c1 == Some(Ordering::Equal)) != e1 && !(x.kind() == "null" && y.kind() == "null") {
            return fail("order_eq_disagree", format!("cmp({}, {}) = {c1:?} while == is {e1}", show(x), show(y)));
        }
        let want = ref_cmp(x, y);
        let numeric = x.num().is_some() && y.num().is_some();
        if x.kind() == y.kind() && x.kind() != "null" && !x.is_nan() && !y.is_nan() && c1.is_none() {
            return fail("order_not_total_within_type", format!("cmp({}, {}) = None", show(x), show(y)));
        }
        if numeric {
            if c1 != want {
                return fail("numeric_order_disagrees_with_value", format!("cmp({}, {}) = {c1:?}, by mathematical value {want:?}", show(x), show(y)));
            }
            if e1 != (want == Some(Ordering::Equal)) {
                return fail("numeric_eq_disagrees_with_value", format!("{} == {} is {e1}, by mathematical value {want:?}", show(x), show(y)));
            }
        } else if x.kind() == "text" && y.kind() == "text" {
            if c1 != want {
                return fail("text_order_not_bytewise", format!("cmp({}, {}) = {c1:?}, bytewise {want:?}", show(x), show(y)));
            }
            if e1 != (want == Some(Ordering::Equal)) {
                return fail("text_eq_not_bytewise", format!("{} == {} is {e1}", show(x), show(y)));
            }
        } else if x.kind() == "bool" && y.kind() == "bool" && c1 != want {
            return fail("bool_order_wrong", format!("cmp({}, {}) = {c1:?}", show(x), show(y)));
        } else if want.is_none() && x.kind() != "null" && y.kind() != "null" && x.kind() != y.kind() && !numeric && e1 {
            return fail("eq_across_categories", format!("{} == {}", show(x), show(y)));
        }
        if want.is_some() {
            out.nontrivial.push(hash_of(&(x, y)));
        }
    }
    // reflexivity
    for (x, dx) in [(a, &da), (b, &db), (c, &dc)] {
        evals += 1;
        #[allow(clippy::eq_op)]
        let refl = dx == dx;
        if refl == x.is_nan() {
            return fail("eq_not_reflexive", format!("{} == itself is {refl}", show(x)));
        }
        // cast to the own kind is the identity; widening keeps the value
        match dx.try_cast(dx.kind()) {
            Ok(y) => {
                if !x.is_nan() && &y != dx {
                    return fail("cast_not_identity", format!("{} cast to its own kind gives {y:?}", show(x)));
                }
            }
            Err(e) => return fail("cast_not_identity", format!("{} cast to its own kind fails: {e}", show(x))),
        }
        if let Some(Num::I(i)) = x.num() {
            if x.kind() != "bigint" && i <= i64::MAX as i128 {
                match dx.try_cast(axmosdb::types::DataTypeKind::BigInt) {
                    Ok(DataType::BigInt(w)) => {
                        if w.0 as i128 != i {
                            return fail("widening_cast_changes_value", format!("{} cast to BIGINT gives {}", show(x), w.0));
                        }
                    }
                    Ok(o) => return fail("widening_cast_changes_value", format!("{} cast to BIGINT gives {o:?}", show(x))),
                    Err(e) => return fail("widening_cast_changes_value", format!("{} cast to BIGINT fails: {e}", show(x))),
                }
            }
        }
    }
    // transitivity
    evals += 1;
    if da == db && db == dc && da != dc {
        return fail("eq_not_transitive", format!("{} == {} and {} == {} but {} != {}", show(a), show(b), show(b), show(c), show(a), show(c)));
    }
    let le = |x: &DataType, y: &DataType| matches!(x.partial_cmp(y), Some(Ordering::Less | Ordering::Equal));
    if le(&da, &db) && le(&db, &dc) && !le(&da, &dc) {
        return fail("order_not_transitive", format!("{} <= {} <= {} but not {} <= {} (cmp = {:?})", show(a), show(b), show(c), show(a), show(c), da.partial_cmp(&dc)));
    }
    out.evals = evals;
    out
}

// ---------------------------------------------------------------------------------------
// (B) SQL consistency on single-column tables
// ---------------------------------------------------------------------------------------

#[derive(Clone, Debug, Serialize, Deserialize, Hash)]
pub struct ColCase {
    /// 0 INT, 1 BIGINT, 2 UINT, 3 BIGUINT, 4 FLOAT, 5 DOUBLE, 6 TEXT, 7 BOOL
    pub ty: u8,
    pub vals: Vec<Option<u16>>,
    #[serde(default)]
    pub excluded: Vec<String>,
}

const SQLTY: [&str; 8] = ["INT", "BIGINT", "UINT", "BIGUINT", "FLOAT", "DOUBLE", "TEXT", "BOOL"];

fn col_val(ty: u8, raw: u16) -> Val {
    let p53 = 1i64 << 53;
    match ty % 8 {
        0 => Val::Int([0i64, 1, -1, 2, 7, -7, 100, -100, 16777217, -16777217, i32::MAX as i64, i32::MIN as i64 + 1, i32::MAX as i64 - 1, 65536, 255, 256][raw as usize % 16]),
        1 => Val::Int([0i64, 1, -1, 2, 1 << 32, -(1 << 32), p53 - 1, p53, -(p53), 16777217, i32::MAX as i64 + 1, 1_000_000_007, -1_000_000_007, p53 + 1, i64::MAX, -4_000_000_000][raw as usize % 16]),
        2 => Val::Int([0i64, 1, 2, 7, 255, 256, 65535, 65536, 16777217, i32::MAX as i64, i32::MAX as i64 + 1, u32::MAX as i64, u32::MAX as i64 - 1, 1000, 10, 3][raw as usize % 16]),
        3 => Val::Int([0i64, 1, 2, 7, 1 << 32, u32::MAX as i64, u32::MAX as i64 + 1, p53 - 1, p53, 1_000_000_007, 16777217, 255, 65536, p53 + 1, i64::MAX, 4_000_000_000][raw as usize % 16]),
        4 => Val::Dbl([0.0f64, 1.0, -1.0, 0.5, -0.5, 1.5, 2.0, 0.25, 16777216.0, -16777216.0, 100.25, 3.0, 1024.0, -3.75, 0.125, 65536.5][raw as usize % 16]),
        5 => Val::Dbl([0.0f64, 1.0, -1.0, 0.5, -0.5, 1.5, 0.1, 0.2, 16777217.0, 9007199254740992.0, -9007199254740992.0, 100.25, 1e15, -1e15, 0.30000000000000004, 123456.789][raw as usize % 16]),
        6 => Val::Text(["", "a", "ab", "abc", "b", "B", "abcdefgh", "abcdefghi", "abcdefgh0", "abcdefghijklmnop", "abcdefghijklmnopq", "customer_1", "customer_1000000000", "0123456789abcdef9", "0123456789abcdef00000000", "zz"][raw as usize % 16].to_string()),
        _ => Val::Bool(raw % 2 == 1),
    }
}

fn lit(v: &Val) -> String {
    match v {
        Val::Dbl(d) => {
            // plain decimal notation, exact for the pool values
            let s = format!("{d:.17}");
            let s = s.trim_end_matches('0').to_string();
            if s.ends_with('.') { format!("{s}0") } else { s }
        }
        o => o.sql(),
    }
}

fn same(a: &Val, b: &Val) -> bool {
    match (a, b) {
        (Val::Null, Val::Null) => true,
        _ => cmp_vals(a, b) == Some(Ordering::Equal),
    }
}

fn sorted_ref(rows: &[Val], desc: bool) -> bool {
    rows.windows(2).all(|w| match (w[0].is_null(), w[1].is_null()) {
        (true, true) => true,
        (true, false) => desc,
        (false, true) => !desc,
        _ => {
            let o = cmp_vals(&w[0], &w[1]).unwrap_or(Ordering::Equal);
            if desc { o != Ordering::Less } else { o != Ordering::Greater }
        }
    })
}

fn multiset_eq(a: &[Val], b: &[Val]) -> bool {
    if a.len() != b.len() {
        return false;
    }
    let mut used = vec![false; b.len()];
    a.iter().all(|x| {
        if let Some(i) = (0..b.len()).find(|i| !used[*i] && same(x, &b[*i])) {
            used[i] = true;
            true
        } else {
            false
        }
    })
}

pub fn run_col(c: &ColCase) -> CaseOut {
    let mut out = CaseOut::pass();
    out.evals = 0;
    let ty = c.ty % 8;
    let vals: Vec<Val> = c.vals.iter().map(|v| v.map(|r| col_val(ty, r)).unwrap_or(Val::Null)).collect();
    let mut tags = vec![format!("sql.{}", SQLTY[ty as usize].to_lowercase())];
    if vals.iter().any(|v| matches!(v, Val::Int(i) if i.unsigned_abs() > (1u64 << 53))) {
        tags.push("sql.int_literal_beyond_2p53".into());
    }
    if let Some(x) = tags.iter().find(|x| c.excluded.contains(x)) {
        out.excluded.push(x.clone());
        out.evals = 1;
        return out;
    }
    let fail = |clause: &str, detail: String| -> Failure { Failure::new(clause, format!("{detail}\n  column type {}, stored values [{}]", SQLTY[ty as usize], vals.iter().map(lit).collect::<Vec<_>>().join(", "))).with_tags(tags.clone()) };
    let mut db = match Db::create(Cfg { pool: 2, ..Cfg::default() }) {
        Ok(d) => d,
        Err(e) => return CaseOut::fail(Failure::new("create_failed", e)),
    };
    macro_rules! sql1 {
        ($q:expr) => {{
            out.evals += 1;
            match db.exec($q) {
                Ok(Out::Rows { rows, .. }) => rows.into_iter().map(|mut r| if r.len() == 1 { r.remove(0) } else { Val::Null }).collect::<Vec<Val>>(),
                Ok(o) => {
                    out.failure = Some(fail("wrong_result_kind", format!("`{}`: {o:?}", $q)));
                    return out;
                }
                Err(crate::dbx::Err::Panic(p)) => {
                    out.failure = Some(fail("panic", format!("`{}`: {p}", $q)));
                    return out;
                }
                Err(e) => {
                    out.failure = Some(fail("statement_rejected", format!("`{}`: {}", $q, e.text())));
                    return out;
                }
            }
        }};
    }
    if let Err(e) = db.exec(&format!("CREATE TABLE t (c {})", SQLTY[ty as usize])) {
        out.failure = Some(fail("statement_rejected", format!("CREATE TABLE: {}", e.text())));
        return out;
    }
    for chunk in vals.chunks(4) {
        let q = format!("INSERT INTO t VALUES {}", chunk.iter().map(|v| format!("({})", lit(v))).collect::<Vec<_>>().join(", "));
        match db.exec(&q) {
            Ok(_) => {}
            Err(e) => {
                out.failure = Some(fail("statement_rejected", format!("`{q}`: {}", e.text())));
                return out;
            }
        }
    }
    // store / load
    let got = sql1!("SELECT c FROM t");
    if !multiset_eq(&got, &vals) {
        out.failure = Some(fail("store_load_changes_value", format!("SELECT c FROM t returns [{}]", got.iter().map(lit).collect::<Vec<_>>().join(", "))));
        return out;
    }
    // ORDER BY
    for desc in [false, true] {
        let q = format!("SELECT c FROM t ORDER BY c{}", if desc { " DESC" } else { "" });
        let got = sql1!(&q);
        if !multiset_eq(&got, &vals) || !sorted_ref(&got, desc) {
            out.failure = Some(fail("order_by_disagrees_with_value_order", format!("`{q}` returns [{}]", got.iter().map(lit).collect::<Vec<_>>().join(", "))));
            return out;
        }
    }
    // ties under a first key that is equal for all rows by value (x * 0 is 0.0 or -0.0 for floats) are broken by the second key
    if ty <= 5 {
        let q = "SELECT c FROM t WHERE c IS NOT NULL ORDER BY c * 0, c DESC";
        let got = sql1!(q);
        let want: Vec<Val> = vals.iter().filter(|v| !v.is_null()).cloned().collect();
        let finite = want.iter().all(|v| v.as_f64().map(|f| f.abs() < 1e300).unwrap_or(true));
        if finite && (!multiset_eq(&got, &want) || !sorted_ref(&got, true)) {
            out.failure = Some(fail("order_by_tie_not_broken_by_second_key", format!("`{q}`: the first key is zero for every row, so the rows must come back in descending order of c; got [{}]", got.iter().map(lit).collect::<Vec<_>>().join(", "))));
            return out;
        }
    }
    // equivalence classes
    let mut classes: Vec<(Val, usize)> = vec![];
    for v in &vals {
        match classes.iter_mut().find(|(k, _)| same(k, v)) {
            Some(e) => e.1 += 1,
            None => classes.push((v.clone(), 1)),
        }
    }
    let got = sql1!("SELECT DISTINCT c FROM t");
    let want: Vec<Val> = classes.iter().map(|(k, _)| k.clone()).collect();
    if !multiset_eq(&got, &want) {
        out.failure = Some(fail("distinct_disagrees_with_equality", format!("SELECT DISTINCT c returns [{}], the values form {} classes", got.iter().map(lit).collect::<Vec<_>>().join(", "), want.len())));
        return out;
    }
    out.evals += 1;
    match db.exec("SELECT c, COUNT(*) FROM t GROUP BY c") {
        Ok(Out::Rows { rows, .. }) => {
            let ok = rows.len() == classes.len() && rows.iter().all(|r| r.len() == 2 && classes.iter().any(|(k, n)| same(k, &r[0]) && same(&Val::Int(*n as i64), &r[1])));
            if !ok {
                out.failure = Some(fail("group_by_disagrees_with_equality", format!("GROUP BY c returns {} groups {:?}, the values form {} classes", rows.len(), rows.iter().map(|r| r.iter().map(lit).collect::<Vec<_>>().join(":")).collect::<Vec<_>>(), classes.len())));
                return out;
            }
        }
        Ok(o) => {
            out.failure = Some(fail("wrong_result_kind", format!("{o:?}")));
            return out;
        }
        Err(crate::dbx::Err::Panic(p)) => {
            out.failure = Some(fail("panic", format!("GROUP BY: {p}")));
            return out;
        }
        Err(e) => {
            out.failure = Some(fail("statement_rejected", format!("GROUP BY: {}", e.text())));
            return out;
        }
    }
    // predicates against every stored (non-null) class representative
    let reps: Vec<Val> = classes.iter().map(|(k, _)| k.clone()).filter(|k| !k.is_null()).collect();
    for k in reps.iter().take(6) {
        for (op, test) in [("=", [Ordering::Equal, Ordering::Equal]), ("<", [Ordering::Less, Ordering::Less]), (">=", [Ordering::Greater, Ordering::Equal])] {
            if ty == 7 && op != "=" {
                continue;
            }
            let q = format!("SELECT c FROM t WHERE c {op} {}", lit(k));
            let got = sql1!(&q);
            let want: Vec<Val> = vals.iter().filter(|v| cmp_vals(v, k).map(|o| test.contains(&o)).unwrap_or(false)).cloned().collect();
            if !multiset_eq(&got, &want) {
                out.failure = Some(fail("comparison_disagrees_with_value_order", format!("`{q}` returns [{}], by value [{}]", got.iter().map(lit).collect::<Vec<_>>().join(", "), want.iter().map(lit).collect::<Vec<_>>().join(", "))));
                return out;
            }
        }
    }
    if reps.len() >= 2 && ty != 7 {
        let (k1, k2) = (&reps[0], &reps[reps.len() - 1]);
        let q_in = format!("SELECT c FROM t WHERE c IN ({}, {})", lit(k1), lit(k2));
        let got = sql1!(&q_in);
        let want: Vec<Val> = vals.iter().filter(|v| same(v, k1) || same(v, k2)).cloned().collect();
        if !multiset_eq(&got, &want) {
            out.failure = Some(fail("in_list_disagrees_with_equality", format!("`{q_in}` returns [{}], by = [{}]", got.iter().map(lit).collect::<Vec<_>>().join(", "), want.iter().map(lit).collect::<Vec<_>>().join(", "))));
            return out;
        }
    }
    // unique index over the distinct non-null values: lookups through the tree agree
    if !reps.is_empty() && ty != 7 {
        if db.exec(&format!("CREATE TABLE u (c {})", SQLTY[ty as usize])).is_ok() {
            let mut ok = true;
            for chunk in reps.chunks(4) {
                ok &= db.exec(&format!("INSERT INTO u VALUES {}", chunk.iter().map(|v| format!("({})", lit(v))).collect::<Vec<_>>().join(", "))).is_ok();
            }
            match db.exec("CREATE UNIQUE INDEX ux ON u (c)") {
                Ok(_) if ok => {
                    for k in reps.iter().take(8) {
                        let q = format!("SELECT c FROM u WHERE c = {}", lit(k));
                        let got = sql1!(&q);
                        if !multiset_eq(&got, &[k.clone()]) {
                            out.failure = Some(fail("index_lookup_disagrees_with_equality", format!("`{q}` on a unique index over the distinct values returns [{}]", got.iter().map(lit).collect::<Vec<_>>().join(", "))));
                            return out;
                        }
                        let q = format!("SELECT c FROM u WHERE c > {}", lit(k));
                        let got = sql1!(&q);
                        let want: Vec<Val> = reps.iter().filter(|v| cmp_vals(v, k) == Some(Ordering::Greater)).cloned().collect();
                        if !multiset_eq(&got, &want) {
                            out.failure = Some(fail("index_range_disagrees_with_value_order", format!("`{q}` returns [{}], by value [{}]", got.iter().map(lit).collect::<Vec<_>>().join(", "), want.iter().map(lit).collect::<Vec<_>>().join(", "))));
                            return out;
                        }
                    }
                    out.labels.push("with_unique_index".into());
                }
                Ok(_) => {}
                Err(crate::dbx::Err::Panic(p)) => {
                    out.failure = Some(fail("panic", format!("CREATE UNIQUE INDEX over distinct values: {p}")));
                    return out;
                }
                Err(e) => {
                    out.failure = Some(fail("unique_index_rejects_distinct_values", format!("CREATE UNIQUE INDEX over the distinct non-NULL values [{}] fails: {}", reps.iter().map(lit).collect::<Vec<_>>().join(", "), e.text())));
                    return out;
                }
            }
        }
    }
    if reps.len() >= 2 {
        out.nontrivial.push(hash_of(c));
    }
    out.labels.push(tags[0].clone());
    let _ = crate::panics::take();
    out
}

// ---------------------------------------------------------------------------------------

fn gen_v() -> BoxedStrategy<V> {
    let g = grid();
    prop_oneof![
        6 => proptest::sample::select(g),
        1 => any::<i32>().prop_map(V::Int),
        1 => any::<i64>().prop_map(V::BigInt),
        1 => any::<u32>().prop_map(V::UInt),
        1 => any::<u64>().prop_map(V::BigUInt),
        1 => any::<u32>().prop_map(V::Float),
        1 => any::<u64>().prop_map(V::Double),
        1 => (any::<i32>()).prop_map(|i| V::Double((i as f64).to_bits())),
        1 => (any::<i32>()).prop_map(|i| V::Float((i as f32).to_bits())),
        2 => prop::collection::vec(prop_oneof![Just(b'a'), Just(b'b'), Just(0u8), Just(0xffu8), any::<u8>()], 0..40).prop_map(V::Text),
        1 => (prop::collection::vec(Just(b'k'), 8..33), prop::collection::vec(any::<u8>(), 0..10)).prop_map(|(mut p, s)| { p.extend(s); V::Text(p) }),
    ]
    .boxed()
}

pub fn run_shard(ctx: &mut ShardCtx) {
    if ctx.shard == 0 {
        ctx.witnesses(&replay);
    }
    let excluded: Vec<String> = ctx.excludes.keys().cloned().collect();
    // enumerated grid: all pairs (as triples (a, b, a)) on every shard's slice; all triples in thorough
    let g = grid();
    let n = g.len();
    let stride_total: u64 = match ctx.tier {
        Tier::Quick => (n * n) as u64,
        Tier::Thorough => (n * n * n) as u64,
    };
    let mut i = ctx.shard as u64;
    while i < stride_total {
        if ctx.out_of_time() || !ctx.res.violations.is_empty() {
            break;
        }
        let (ia, ib, ic) = match ctx.tier {
            Tier::Quick => ((i / n as u64) as usize, (i % n as u64) as usize, ((i * 7 + 3) % n as u64) as usize),
            Tier::Thorough => ((i / (n * n) as u64) as usize, ((i / n as u64) % n as u64) as usize, (i % n as u64) as usize),
        };
        let t = Triple { a: g[ia].clone(), b: g[ib].clone(), c: g[ic].clone(), excluded: excluded.clone() };
        ctx.run_one("triple", &t, &run_triple);
        i += ctx.nshards as u64;
    }
    let ex2 = excluded.clone();
    let nt = ctx.share(ctx.tier.pick(3_000_000, 60_000_000));
    ctx.search("triple", (gen_v(), gen_v(), gen_v()).prop_map(move |(a, b, c)| Triple { a, b, c, excluded: ex2.clone() }), nt, &run_triple);
    let ex3 = excluded.clone();
    let nc = ctx.share(ctx.tier.pick(16_000, 400_000));
    ctx.search("column", (0u8..8, prop::collection::vec(prop::option::weighted(0.85, 0u16..16), 1..13)).prop_map(move |(ty, vals)| ColCase { ty, vals, excluded: ex3.clone() }), nc, &run_col);
}

pub fn replay(kind: &str, case: &Value) -> CaseOut {
    match kind {
        "triple" => match from_value::<Triple>(case) {
            Ok(c) => run_triple(&c),
            Err(e) => CaseOut::fail(Failure::new("bad_replay", e)),
        },
        "column" => match from_value::<ColCase>(case) {
            Ok(c) => run_col(&c),
            Err(e) => CaseOut::fail(Failure::new("bad_replay", e)),
        },
        "tree_ops" | "tree_bulk" => super::c10::replay(kind, case),
        _ => CaseOut::fail(Failure::new("bad_replay", format!("unknown kind {kind}"))),
    }
}

#[allow(dead_code)]
fn _unused(_: BTreeMap<u8, u8>) {}
