//! C20 — the wire protocol carries every message intact and rejects garbage. DESIGN.md §2/C20.
use crate::engine::*;
use axmosdb::tcp::{
    MAX_MESSAGE_SIZE, Request, Response, TcpError, read_message, recv_request, recv_response, send_request,
    send_response, write_message,
};
use proptest::prelude::*;
use serde::{Deserialize, Serialize};
use serde_json::Value;
use std::io::{Cursor, Read};

pub fn info() -> PropertyInfo {
    PropertyInfo {
        id: "C20",
        level: "exploration",
        rule: "roundtrip: generated Request/Response values of every variant (strings empty/ASCII/multi-byte/NUL/64KiB, Rows 0-40 cols x 0-60 rows incl. 0 columns with rows, f64 by bit pattern incl NaN/inf, usize extremes) through to_bytes/from_bytes and write_message/read_message with short reads; non-trivial = has at least one variable-length field of length>=1. garbage: random bytes and mutated valid frames into Request::from_bytes, Response::from_bytes, read_message, recv_request, recv_response; non-trivial = passes version and command/status byte check (reaches field decoding). distinct = structural hash of the case.",
        assumptions: &[
            "Response has no PartialEq: compared field-wise through a mirror type in the harness",
            "allocation bound: VmPeak growth of the worker process around one decode call <= 64*input_len + 192 MiB, measured after an allocator warm-up (jemalloc maps whole arenas at a thread's first allocations); RLIMIT_AS 8 GiB turns larger requests into process death, which the supervisor reports",
            "row arity: generated Rows values have every row of width columns.len() (the only shape the server produces)",
            "harness build profile: opt-level 2 with overflow-checks and debug-assertions on",
        ],
        budget_s: (240, 1800),
        hang_is_violation: true,
        max_shards: 16,
        run_shard,
        replay,
    }
}

// ---------------------------------------------------------------------------------------------
// mirror types
// ---------------------------------------------------------------------------------------------

#[derive(Clone, Debug, PartialEq, Serialize, Deserialize, Hash)]
pub enum ReqM {
    Create(String),
    Open(String),
    Sql(String),
    Explain(String),
    Analyze { rate_bits: u64, max_rows: u64 },
    Close,
    Ping,
    Vacuum,
    Begin,
    Rollback,
    Commit,
    Shutdown,
}

#[derive(Clone, Debug, PartialEq, Serialize, Deserialize, Hash)]
pub enum RespM {
    Ok(String),
    Error(String),
    Rows { columns: Vec<String>, data: Vec<Vec<String>> },
    SessionStarted,
    SessionEnd,
    RowsAffected(u64),
    Ddl(String),
    Explain(String),
    VacuumComplete { a: u64, b: u64, c: u64 },
    Pong,
    Goodbye,
    ShuttingDown,
}

#[derive(Clone, Debug, PartialEq, Serialize, Deserialize, Hash)]
pub enum Msg {
    Req(ReqM),
    Resp(RespM),
}

fn req_to(m: &ReqM) -> Request {
    match m.clone() {
        ReqM::Create(s) => Request::Create(s),
        ReqM::Open(s) => Request::Open(s),
        ReqM::Sql(s) => Request::Sql(s),
        ReqM::Explain(s) => Request::Explain(s),
        ReqM::Analyze { rate_bits, max_rows } => Request::Analyze { sample_rate: f64::from_bits(rate_bits), max_sample_rows: max_rows as usize },
        ReqM::Close => Request::Close,
        ReqM::Ping => Request::Ping,
        ReqM::Vacuum => Request::Vacuum,
        ReqM::Begin => Request::Begin,
        ReqM::Rollback => Request::Rollback,
        ReqM::Commit => Request::Commit,
        ReqM::Shutdown => Request::Shutdown,
    }
}

fn req_from(r: &Request) -> ReqM {
    match r.clone() {
        Request::Create(s) => ReqM::Create(s),
        Request::Open(s) => ReqM::Open(s),
        Request::Sql(s) => ReqM::Sql(s),
        Request::Explain(s) => ReqM::Explain(s),
        Request::Analyze { sample_rate, max_sample_rows } => ReqM::Analyze { rate_bits: sample_rate.to_bits(), max_rows: max_sample_rows as u64 },
        Request::Close => ReqM::Close,
        Request::Ping => ReqM::Ping,
        Request::Vacuum => ReqM::Vacuum,
        Request::Begin => ReqM::Begin,
        Request::Rollback => ReqM::Rollback,
        Request::Commit => ReqM::Commit,
        Request::Shutdown => ReqM::Shutdown,
    }
}

fn resp_to(m: &RespM) -> Response {
    match m.clone() {
        RespM::Ok(s) => Response::Ok(s),
        RespM::Error(s) => Response::Error(s),
        RespM::Rows { columns, data } => Response::Rows { columns, data },
        RespM::SessionStarted => Response::SessionStarted,
        RespM::SessionEnd => Response::SessionEnd,
        RespM::RowsAffected(n) => Response::RowsAffected(n),
        RespM::Ddl(s) => Response::Ddl(s),
        RespM::Explain(s) => Response::Explain(s),
        RespM::VacuumComplete { a, b, c } => Response::VacuumComplete { tables_vacuumed: a as usize, bytes_freed: b as usize, transactions_cleaned: c as usize },
        RespM::Pong => Response::Pong,
        RespM::Goodbye => Response::Goodbye,
        RespM::ShuttingDown => Response::ShuttingDown,
    }
}

fn resp_from(r: &Response) -> RespM {
    match r.clone() {
        Response::Ok(s) => RespM::Ok(s),
        Response::Error(s) => RespM::Error(s),
        Response::Rows { columns, data } => RespM::Rows { columns, data },
        Response::SessionStarted => RespM::SessionStarted,
        Response::SessionEnd => RespM::SessionEnd,
        Response::RowsAffected(n) => RespM::RowsAffected(n),
        Response::Ddl(s) => RespM::Ddl(s),
        Response::Explain(s) => RespM::Explain(s),
        Response::VacuumComplete { tables_vacuumed, bytes_freed, transactions_cleaned } => RespM::VacuumComplete { a: tables_vacuumed as u64, b: bytes_freed as u64, c: transactions_cleaned as u64 },
        Response::Pong => RespM::Pong,
        Response::Goodbye => RespM::Goodbye,
        Response::ShuttingDown => RespM::ShuttingDown,
    }
}

// ---------------------------------------------------------------------------------------------
// cases
// ---------------------------------------------------------------------------------------------

#[derive(Clone, Debug, Serialize, Deserialize)]
pub struct RoundTrip {
    pub msg: Msg,
    /// chunk size of the short-read reader (1..)
    pub chunk: u16,
}

#[derive(Clone, Debug, Serialize, Deserialize)]
pub struct Garbage {
    /// 0 Request::from_bytes, 1 Response::from_bytes, 2 read_message, 3 recv_request, 4 recv_response
    pub target: u8,
    pub bytes: Vec<u8>,
}

/// Reader that returns at most `chunk` bytes per call.
struct ShortReader<'a> {
    data: &'a [u8],
    pos: usize,
    chunk: usize,
}
impl<'a> Read for ShortReader<'a> {
    fn read(&mut self, buf: &mut [u8]) -> std::io::Result<usize> {
        let n = buf.len().min(self.chunk).min(self.data.len() - self.pos);
        buf[..n].copy_from_slice(&self.data[self.pos..self.pos + n]);
        self.pos += n;
        Ok(n)
    }
}

/// Writer that accepts at most `chunk` bytes per call (what a socket with a full send buffer does).
struct ShortWriter {
    out: Vec<u8>,
    chunk: usize,
}
impl std::io::Write for ShortWriter {
    fn write(&mut self, buf: &[u8]) -> std::io::Result<usize> {
        let n = buf.len().min(self.chunk.max(1));
        self.out.extend_from_slice(&buf[..n]);
        Ok(n)
    }
    fn flush(&mut self) -> std::io::Result<()> {
        Ok(())
    }
}

fn has_var_field(m: &Msg) -> bool {
    match m {
        Msg::Req(r) => matches!(r, ReqM::Create(s) | ReqM::Open(s) | ReqM::Sql(s) | ReqM::Explain(s) if !s.is_empty()),
        Msg::Resp(r) => match r {
            RespM::Ok(s) | RespM::Error(s) | RespM::Ddl(s) | RespM::Explain(s) => !s.is_empty(),
            RespM::Rows { columns, data } => !columns.is_empty() || !data.is_empty(),
            _ => false,
        },
    }
}

fn guarded<T>(f: impl FnOnce() -> T) -> Result<T, String> {
    let before = crate::panics::count();
    match std::panic::catch_unwind(std::panic::AssertUnwindSafe(f)) {
        Ok(v) => Ok(v),
        Err(_) => {
            let recs = crate::panics::take();
            let sig = recs.get(before.min(recs.len().saturating_sub(1))).map(|r| r.signature()).unwrap_or_else(|| "panic".into());
            Err(sig)
        }
    }
}

pub fn run_roundtrip(c: &RoundTrip) -> CaseOut {
    let mut out = CaseOut::pass();
    let chunk = (c.chunk as usize).max(1);
    let tagv = |m: &Msg| -> Vec<String> {
        let v = match m {
            Msg::Req(r) => format!("req.{}", variant_name(&serde_json::to_value(r).unwrap())),
            Msg::Resp(r) => format!("resp.{}", variant_name(&serde_json::to_value(r).unwrap())),
        };
        vec![v]
    };
    let tags = tagv(&c.msg);
    out.labels.push(tags[0].clone());
    if has_var_field(&c.msg) {
        out.nontrivial.push(hash_json(&c.msg));
    }
    let res: Result<Option<Failure>, String> = guarded(|| {
        let bytes = match &c.msg {
            Msg::Req(m) => req_to(m).to_bytes(),
            Msg::Resp(m) => resp_to(m).to_bytes(),
        };
        // 1. direct decode
        match &c.msg {
            Msg::Req(m) => match Request::from_bytes(&bytes) {
                Ok(r) if &req_from(&r) == m => {}
                Ok(r) => return Some(Failure::new("roundtrip_mismatch", format!("sent {:?} decoded {:?}", short(m), short(&req_from(&r))))),
                Err(e) => return Some(Failure::new("roundtrip_decode_error", format!("own encoding rejected: {e}"))),
            },
            Msg::Resp(m) => match Response::from_bytes(&bytes) {
                Ok(r) if &resp_from(&r) == m => {}
                Ok(r) => return Some(Failure::new("roundtrip_mismatch", format!("sent {:?} decoded {:?}", short(m), short(&resp_from(&r))))),
                Err(e) => return Some(Failure::new("roundtrip_decode_error", format!("own encoding rejected: {e}"))),
            },
        }
        // 2. framing
        let mut wire = Vec::new();
        let w = write_message(&mut wire, &bytes);
        if bytes.len() > MAX_MESSAGE_SIZE {
            return match w {
                Err(TcpError::MessageTooLarge(_)) if wire.is_empty() => None,
                Err(TcpError::MessageTooLarge(_)) => Some(Failure::new("oversize_partial_write", "bytes written although the message was refused")),
                other => Some(Failure::new("oversize_not_refused", format!("{} byte message: {:?}", bytes.len(), other.map_err(|e| e.to_string())))),
            };
        }
        if let Err(e) = w {
            return Some(Failure::new("frame_write_error", e.to_string()));
        }
        let mut rd = ShortReader { data: &wire, pos: 0, chunk };
        match read_message(&mut rd) {
            Ok(b) if b == bytes => {}
            Ok(b) => return Some(Failure::new("frame_mismatch", format!("framed {} bytes, read back {} bytes", bytes.len(), b.len()))),
            Err(e) => return Some(Failure::new("frame_read_error", e.to_string())),
        }
        if rd.pos != wire.len() {
            return Some(Failure::new("frame_leftover", format!("{} bytes left unread", wire.len() - rd.pos)));
        }
        // 2b. the same frame through a writer that takes only `chunk` bytes per call: it must arrive whole
        let mut sw = ShortWriter { out: Vec::new(), chunk };
        match write_message(&mut sw, &bytes) {
            Ok(()) if sw.out == wire => {}
            Ok(()) => return Some(Failure::new("frame_truncated_by_short_writes", format!("a writer accepting {chunk} bytes per call received {} of the {} bytes of the frame although write_message returned Ok", sw.out.len(), wire.len()))),
            Err(e) => return Some(Failure::new("frame_write_error", format!("through a short-write writer: {e}"))),
        }
        // 3. send_*/recv_* end to end, two messages back to back (frame boundaries)
        let mut wire2 = Vec::new();
        match &c.msg {
            Msg::Req(m) => {
                let r = req_to(m);
                if send_request(&mut wire2, &r).is_err() || send_request(&mut wire2, &Request::Ping).is_err() {
                    return Some(Failure::new("frame_write_error", "send_request failed"));
                }
                let mut rd = ShortReader { data: &wire2, pos: 0, chunk };
                match recv_request(&mut rd) {
                    Ok(r2) if &req_from(&r2) == m => {}
                    other => return Some(Failure::new("recv_mismatch", format!("{:?}", other.map(|r| short(&req_from(&r))).map_err(|e| e.to_string())))),
                }
                match recv_request(&mut rd) {
                    Ok(Request::Ping) => {}
                    other => return Some(Failure::new("recv_second_frame", format!("{:?}", other.map_err(|e| e.to_string())))),
                }
            }
            Msg::Resp(m) => {
                let r = resp_to(m);
                if send_response(&mut wire2, &r).is_err() || send_response(&mut wire2, &Response::Pong).is_err() {
                    return Some(Failure::new("frame_write_error", "send_response failed"));
                }
                let mut rd = ShortReader { data: &wire2, pos: 0, chunk };
                match recv_response(&mut rd) {
                    Ok(r2) if &resp_from(&r2) == m => {}
                    other => return Some(Failure::new("recv_mismatch", format!("{:?}", other.map(|r| short(&resp_from(&r))).map_err(|e| e.to_string())))),
                }
                match recv_response(&mut rd) {
                    Ok(Response::Pong) => {}
                    other => return Some(Failure::new("recv_second_frame", format!("{:?}", other.map(|r| short(&resp_from(&r))).map_err(|e| e.to_string())))),
                }
            }
        }
        None
    });
    out.failure = match res {
        Ok(f) => f,
        Err(sig) => Some(Failure::new("codec_panic", sig)),
    }
    .map(|f| f.with_tags(tags));
    out
}

fn short<T: std::fmt::Debug>(t: &T) -> String {
    truncate(&format!("{t:?}"), 300)
}

fn variant_name(v: &Value) -> String {
    match v {
        Value::String(s) => s.clone(),
        Value::Object(m) => m.keys().next().cloned().unwrap_or_default(),
        _ => "?".into(),
    }
}

fn vm_peak_kb() -> u64 {
    let s = std::fs::read_to_string("/proc/self/status").unwrap_or_default();
    for l in s.lines() {
        if let Some(r) = l.strip_prefix("VmPeak:") {
            return r.trim().trim_end_matches("kB").trim().parse().unwrap_or(0);
        }
    }
    0
}

const REQ_CODES: [u8; 12] = [1, 2, 3, 4, 5, 6, 7, 9, 0x0A, 0x0B, 0x0C, 0xFF];

/// The first allocations of a thread make jemalloc map its arena (tens of MiB of address space at once):
/// do that before anything is measured, so that VmPeak growth around a decode call is the call's own.
fn warm_up_allocator() {
    static ONCE: std::sync::Once = std::sync::Once::new();
    ONCE.call_once(|| {
        for n in [1usize, 64, 4096, 1 << 16, 1 << 20, 8 << 20, 32 << 20] {
            let v: Vec<u8> = vec![1u8; n];
            std::hint::black_box(&v);
            let m = Response::Rows { columns: vec!["c".into(); 4], data: vec![vec!["v".repeat(n.min(4096)); 4]; 16] };
            let _ = Response::from_bytes(&m.to_bytes());
        }
        let strings: Vec<String> = (0..100_000).map(|i| i.to_string()).collect();
        std::hint::black_box(&strings);
    });
}

pub fn run_garbage(c: &Garbage) -> CaseOut {
    warm_up_allocator();
    let mut out = CaseOut::pass();
    let b = &c.bytes;
    let target = c.target % 5;
    let tname = ["Request::from_bytes", "Response::from_bytes", "read_message", "recv_request", "recv_response"][target as usize];
    out.labels.push(format!("garbage.{tname}"));
    let payload: &[u8] = if target >= 2 { b.get(4..).unwrap_or(&[]) } else { b };
    let reaches_fields = match target {
        0 | 3 => payload.len() >= 2 && payload[0] == 1 && REQ_CODES.contains(&payload[1]),
        1 | 4 => payload.len() >= 2 && payload[0] == 1 && payload[1] <= 0x0B,
        _ => b.len() >= 4,
    };
    if reaches_fields {
        out.nontrivial.push(hash_of(&(target, b)));
        out.labels.push("garbage.reaches_field_decoding".into());
    }
    let tags = vec![format!("target.{tname}")];
    let peak0 = vm_peak_kb();
    let t0 = std::time::Instant::now();
    let res: Result<Option<Failure>, String> = guarded(|| match target {
        0 => match Request::from_bytes(b) {
            Ok(r) => {
                let m = req_from(&r);
                match Request::from_bytes(&r.to_bytes()) {
                    Ok(r2) if req_from(&r2) == m => None,
                    other => Some(Failure::new("accepted_value_unstable", format!("decoded {:?} re-decodes as {:?}", short(&m), other.map(|r| short(&req_from(&r))).map_err(|e| e.to_string())))),
                }
            }
            Err(_) => None,
        },
        1 => match Response::from_bytes(b) {
            Ok(r) => {
                let m = resp_from(&r);
                match Response::from_bytes(&r.to_bytes()) {
                    Ok(r2) if resp_from(&r2) == m => None,
                    other => Some(Failure::new("accepted_value_unstable", format!("decoded {:?} re-decodes as {:?}", short(&m), other.map(|r| short(&resp_from(&r))).map_err(|e| e.to_string())))),
                }
            }
            Err(_) => None,
        },
        2 => {
            let mut cur = Cursor::new(b.as_slice());
            let declared = if b.len() >= 4 { Some(u32::from_le_bytes([b[0], b[1], b[2], b[3]]) as usize) } else { None };
            match (read_message(&mut cur), declared) {
                (Ok(m), Some(d)) if d <= MAX_MESSAGE_SIZE && b.len() >= 4 + d && m == b[4..4 + d] => None,
                (Ok(m), d) => Some(Failure::new("frame_accepts_garbage", format!("declared {:?}, input {} bytes, returned {} bytes", d, b.len(), m.len()))),
                (Err(TcpError::MessageTooLarge(_)), Some(d)) if d > MAX_MESSAGE_SIZE => None,
                (Err(TcpError::Io(_)), None) => None,
                (Err(TcpError::Io(_)), Some(d)) if d <= MAX_MESSAGE_SIZE && b.len() < 4 + d => None,
                (Err(e), d) => Some(Failure::new("frame_wrong_error", format!("declared {:?}, input {} bytes: {e}", d, b.len()))),
            }
        }
        3 => {
            let mut cur = Cursor::new(b.as_slice());
            let _ = recv_request(&mut cur);
            None
        }
        _ => {
            let mut cur = Cursor::new(b.as_slice());
            let _ = recv_response(&mut cur);
            None
        }
    });
    let dt = t0.elapsed();
    let peak1 = vm_peak_kb();
    out.failure = match res {
        Ok(f) => f,
        Err(sig) => Some(Failure::new("decoder_panic", format!("{tname}: {sig}"))),
    };
    if out.failure.is_none() {
        let allowed_kb = (b.len() as u64 * 64) / 1024 + 192 * 1024;
        if peak1.saturating_sub(peak0) > allowed_kb {
            out.failure = Some(Failure::new(
                "unbounded_allocation",
                format!("{tname}: {} input bytes grew VmPeak by {} KiB (allowed {} KiB)", b.len(), peak1 - peak0, allowed_kb),
            ));
        } else if dt.as_secs() >= 5 {
            out.failure = Some(Failure::new("decoder_slow", format!("{tname}: {} input bytes took {:?}", b.len(), dt)));
        }
    }
    out.failure = out.failure.map(|f| f.with_tags(tags));
    out
}

// ---------------------------------------------------------------------------------------------
// generators
// ---------------------------------------------------------------------------------------------

fn gen_string() -> BoxedStrategy<String> {
    prop_oneof![
        2 => Just(String::new()),
        4 => "[ -~]{1,40}",
        3 => "\\PC{1,30}",
        2 => "[a-z\\x00é漢🦀]{1,20}",
        1 => (1usize..70_000, any::<u8>()).prop_map(|(n, c)| std::iter::repeat((b'a' + c % 26) as char).take(n).collect::<String>()),
        1 => prop::collection::vec(any::<char>(), 1..2000).prop_map(|v| v.into_iter().collect::<String>()),
    ]
    .boxed()
}

fn gen_cell() -> BoxedStrategy<String> {
    prop_oneof![
        3 => Just(String::new()),
        5 => "[ -~]{1,12}",
        2 => "\\PC{1,8}",
        1 => Just("NULL".to_string()),
    ]
    .boxed()
}

fn gen_u64x() -> BoxedStrategy<u64> {
    prop_oneof![
        Just(0u64),
        Just(1u64),
        Just(u32::MAX as u64),
        Just(u32::MAX as u64 + 1),
        Just(i64::MAX as u64),
        Just(u64::MAX),
        any::<u64>(),
    ]
    .boxed()
}

fn gen_req() -> BoxedStrategy<ReqM> {
    prop_oneof![
        gen_string().prop_map(ReqM::Create),
        gen_string().prop_map(ReqM::Open),
        gen_string().prop_map(ReqM::Sql),
        gen_string().prop_map(ReqM::Explain),
        (
            prop_oneof![
                Just(0f64.to_bits()),
                Just((-0f64).to_bits()),
                Just(f64::NAN.to_bits()),
                Just(f64::INFINITY.to_bits()),
                Just(f64::NEG_INFINITY.to_bits()),
                Just(0.1f64.to_bits()),
                any::<u64>()
            ],
            gen_u64x()
        )
            .prop_map(|(rate_bits, max_rows)| ReqM::Analyze { rate_bits, max_rows }),
        Just(ReqM::Close),
        Just(ReqM::Ping),
        Just(ReqM::Vacuum),
        Just(ReqM::Begin),
        Just(ReqM::Rollback),
        Just(ReqM::Commit),
        Just(ReqM::Shutdown),
    ]
    .boxed()
}

fn gen_rows() -> BoxedStrategy<RespM> {
    (0usize..40, 0usize..60)
        .prop_flat_map(|(nc, nr)| {
            let nc = if nc >= 36 { 0 } else { nc % 9 + (nc / 30) * 25 }; // mostly small, sometimes wide, sometimes 0
            (prop::collection::vec(gen_cell(), nc), prop::collection::vec(prop::collection::vec(gen_cell(), nc), nr))
        })
        .prop_map(|(columns, data)| RespM::Rows { columns, data })
        .boxed()
}

fn gen_resp() -> BoxedStrategy<RespM> {
    prop_oneof![
        2 => gen_string().prop_map(RespM::Ok),
        2 => gen_string().prop_map(RespM::Error),
        8 => gen_rows(),
        1 => Just(RespM::SessionStarted),
        1 => Just(RespM::SessionEnd),
        2 => gen_u64x().prop_map(RespM::RowsAffected),
        2 => gen_string().prop_map(RespM::Ddl),
        2 => gen_string().prop_map(RespM::Explain),
        2 => (gen_u64x(), gen_u64x(), gen_u64x()).prop_map(|(a, b, c)| RespM::VacuumComplete { a, b, c }),
        1 => Just(RespM::Pong),
        1 => Just(RespM::Goodbye),
        1 => Just(RespM::ShuttingDown),
    ]
    .boxed()
}

fn gen_msg() -> BoxedStrategy<Msg> {
    prop_oneof![gen_req().prop_map(Msg::Req), gen_resp().prop_map(Msg::Resp)].boxed()
}

fn gen_roundtrip() -> BoxedStrategy<RoundTrip> {
    (gen_msg(), prop_oneof![Just(1u16), Just(2u16), Just(3u16), Just(7u16), 1u16..5000]).prop_map(|(msg, chunk)| RoundTrip { msg, chunk }).boxed()
}

/// Small valid messages used as mutation seeds.
fn gen_small_msg_bytes() -> BoxedStrategy<(bool, Vec<u8>)> {
    let small_rows = (0usize..4, 0usize..4)
        .prop_flat_map(|(nc, nr)| (prop::collection::vec("[a-c]{0,3}", nc), prop::collection::vec(prop::collection::vec("[a-c]{0,3}", nc), nr)))
        .prop_map(|(columns, data)| RespM::Rows { columns, data });
    prop_oneof![
        gen_req().prop_map(|m| (true, req_to(&m).to_bytes())),
        gen_resp().prop_map(|m| (false, resp_to(&m).to_bytes())),
        small_rows.prop_map(|m| (false, resp_to(&m).to_bytes())),
    ]
    .prop_filter("seed frames stay small", |(_, b)| b.len() <= 4096)
    .boxed()
}

fn gen_garbage() -> BoxedStrategy<Garbage> {
    let mutated = (gen_small_msg_bytes(), prop::collection::vec((any::<u16>(), 0u8..6, any::<u8>()), 0..4), any::<bool>(), any::<bool>()).prop_map(
        |((is_req, mut bytes), muts, framed, cross)| {
            for (pos, op, val) in muts {
                if bytes.is_empty() {
                    break;
                }
                let i = pick_idx(pos, bytes.len());
                match op {
                    0 => bytes[i] = val,
                    1 => bytes[i] = bytes[i].wrapping_add(1),
                    2 => bytes[i] = bytes[i].wrapping_sub(1),
                    3 => bytes.truncate(i),
                    4 => {
                        // overwrite a 4-byte little endian field with an extreme count
                        let ext = [0xFFFF_FFFFu32, 0x7FFF_FFFF, 0x0100_0000, 0x00FF_FFFF, 65536, 0][val as usize % 6].to_le_bytes();
                        for (k, e) in ext.iter().enumerate() {
                            if i + k < bytes.len() {
                                bytes[i + k] = *e;
                            }
                        }
                    }
                    _ => bytes.insert(i, val),
                }
            }
            // cross: feed a request to the response decoder and vice versa
            let as_req = is_req ^ cross;
            if framed {
                let mut w = (bytes.len() as u32).to_le_bytes().to_vec();
                w.extend_from_slice(&bytes);
                Garbage { target: if as_req { 3 } else { 4 }, bytes: w }
            } else {
                Garbage { target: if as_req { 0 } else { 1 }, bytes }
            }
        },
    );
    let random = (0u8..5, prop::collection::vec(any::<u8>(), 0..64)).prop_map(|(target, bytes)| Garbage { target, bytes });
    let headed = (0u8..5, any::<bool>(), any::<u8>(), prop::collection::vec(any::<u8>(), 0..48)).prop_map(|(target, req, code, tail)| {
        let code = if req { REQ_CODES[code as usize % REQ_CODES.len()] } else { code % 0x0C };
        let mut body = vec![1u8, code];
        body.extend(tail);
        if target >= 2 {
            let mut w = (body.len() as u32).to_le_bytes().to_vec();
            w.extend(body);
            Garbage { target, bytes: w }
        } else {
            Garbage { target, bytes: body }
        }
    });
    let frame_len = (prop_oneof![Just(0u32), Just(1), Just(MAX_MESSAGE_SIZE as u32), Just(MAX_MESSAGE_SIZE as u32 + 1), Just(u32::MAX), any::<u32>()], prop::collection::vec(any::<u8>(), 0..24), 2u8..5)
        .prop_map(|(len, tail, target)| {
            let mut w = len.to_le_bytes().to_vec();
            w.extend(tail);
            Garbage { target, bytes: w }
        });
    prop_oneof![5 => mutated, 2 => random, 3 => headed, 1 => frame_len].boxed()
}

// ---------------------------------------------------------------------------------------------
// entry points
// ---------------------------------------------------------------------------------------------

fn set_rlimit_as(bytes: u64) {
    unsafe {
        let lim = libc::rlimit { rlim_cur: bytes, rlim_max: bytes };
        libc::setrlimit(libc::RLIMIT_AS, &lim);
    }
}

pub fn run_shard(ctx: &mut ShardCtx) {
    set_rlimit_as(8 << 30);
    if ctx.shard == 0 {
        ctx.witnesses(&replay);
        // explicit extreme cases
        let big = "x".repeat(MAX_MESSAGE_SIZE - 6);
        for m in [
            Msg::Req(ReqM::Sql(big.clone())),                                  // exactly MAX_MESSAGE_SIZE bytes encoded
            Msg::Req(ReqM::Sql(format!("{big}y"))),                            // one more: must be refused by the framing
            Msg::Resp(RespM::Rows { columns: vec![], data: vec![vec![]; 3] }), // zero columns, three rows
            Msg::Resp(RespM::Rows { columns: vec!["a".into(); 50], data: vec![] }),
            Msg::Resp(RespM::Rows { columns: vec!["c".into(); 50], data: vec![vec!["v".into(); 50]; 200] }),
        ] {
            ctx.run_one("roundtrip", &RoundTrip { msg: m, chunk: 4093 }, &run_roundtrip);
        }
    }
    let n_rt = ctx.share(ctx.tier.pick(20_000, 1_000_000));
    let n_gb = ctx.share(ctx.tier.pick(60_000, 3_000_000));
    ctx.search("roundtrip", gen_roundtrip(), n_rt, &run_roundtrip);
    ctx.search("garbage", gen_garbage(), n_gb, &run_garbage);
}

/// Seed inputs for the fuzzer (harness/fuzz/fuzz_targets/wire_decode.rs): one well-formed message per variant for
/// each decoding entry point (byte 0 picks the entry point; 2-4 take a length-prefixed frame).
pub fn fuzz_seed_corpus() -> Vec<Vec<u8>> {
    let reqs = [ReqM::Create("db".into()), ReqM::Open("db".into()), ReqM::Sql("SELECT 1".into()), ReqM::Explain("SELECT a FROM t".into()), ReqM::Analyze { rate_bits: 1.0f64.to_bits(), max_rows: 10 }, ReqM::Close, ReqM::Ping, ReqM::Vacuum, ReqM::Begin, ReqM::Rollback, ReqM::Commit, ReqM::Shutdown];
    let mut v = vec![];
    for r in &reqs {
        let b = req_to(r).to_bytes();
        let mut plain = vec![0u8];
        plain.extend_from_slice(&b);
        v.push(plain);
        for t in [2u8, 3] {
            let mut framed = vec![t];
            framed.extend_from_slice(&(b.len() as u32).to_le_bytes());
            framed.extend_from_slice(&b);
            v.push(framed);
        }
    }
    let resps = [RespM::Ok("ok".into()), RespM::Error("e".into()), RespM::Rows { columns: vec!["a".into(), "b".into()], data: vec![vec!["1".into(), "x".into()], vec!["2".into(), "".into()]] }, RespM::SessionStarted, RespM::SessionEnd, RespM::RowsAffected(3), RespM::Ddl("d".into()), RespM::Explain("p".into()), RespM::VacuumComplete { a: 1, b: 2, c: 3 }, RespM::Pong, RespM::Goodbye, RespM::ShuttingDown];
    for r in &resps {
        let b = resp_to(r).to_bytes();
        let mut plain = vec![1u8];
        plain.extend_from_slice(&b);
        v.push(plain);
        let mut framed = vec![4u8];
        framed.extend_from_slice(&(b.len() as u32).to_le_bytes());
        framed.extend_from_slice(&b);
        v.push(framed);
    }
    v
}

pub fn replay(kind: &str, case: &Value) -> CaseOut {
    match kind {
        "roundtrip" => match from_value::<RoundTrip>(case) {
            Ok(c) => run_roundtrip(&c),
            Err(e) => CaseOut::fail(Failure::new("bad_replay", e)),
        },
        "garbage" => match from_value::<Garbage>(case) {
            Ok(c) => {
                set_rlimit_as(8 << 30);
                run_garbage(&c)
            }
            Err(e) => CaseOut::fail(Failure::new("bad_replay", e)),
        },
        _ => CaseOut::fail(Failure::new("bad_replay", format!("unknown kind {kind}"))),
    }
}
