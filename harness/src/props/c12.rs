//! C12 — configuration changes performance, never results. DESIGN.md §2/C12.
use crate::dbx::{Cfg, Db, Out};
use crate::engine::*;
use crate::sqlmodel::{Val, multiset};
use axmosdb::verif::io::IoKind;
use proptest::prelude::*;
use serde::{Deserialize, Serialize};
use serde_json::Value;

pub fn info() -> PropertyInfo {
    PropertyInfo {
        id: "C12",
        level: "exploration",
        rule: "one generated script (2-3 tables with an INT key, a TEXT payload of 20-200 bytes and an INT; 60-400 statements: multi-row INSERT, point/range SELECT, COUNT(*), DELETE by range, UPDATE of the payload of a key range to another length (grow/shrink, inline <-> overflow), VACUUM, close + reopen with the same configuration, DROP + CREATE of a table, transactions that commit or roll back, checkpoints through flush() at random points or none) is executed on a reference configuration (4 KiB pages, cache 10000, nothing evicted) and on 3-4 other configurations drawn from page size {4,8,16,32,64 KiB} x cache {24,32,64,256,10000,65535,65536,131072} x pool {1,2,8} x min keys {3,4,6,16,32,100, capped at page size / 128: a page must hold that many cells} x siblings {1,2,3}. Oracle (pure differential, no model): per statement the outcome class (row multiset / affected count / DDL / error) and at the end SELECT * of every table must equal the reference run; the only permitted difference is an explicit 'Buffer pool got out of memory' error with a cache below 256 pages, after which that configuration is no longer compared (counted). non-trivial = a script during which, in at least one small-cache configuration, the I/O tap saw data-file writes outside flush/close (eviction write-back); distinct = hash of the script.",
        assumptions: &[
            "differential oracle: a defect that strikes identically in every configuration is not this property's violation",
            "row sizes stay below the limits of the open B+tree findings (see coverage.excluded / known.json)",
            "UPDATE is not part of the scripts (open findings make its outcome ill-defined)",
        ],
        budget_s: (480, 3600),
        hang_is_violation: false,
        max_shards: 16,
        run_shard,
        replay,
    }
}

#[derive(Clone, Debug, Serialize, Deserialize, Hash)]
pub enum Op {
    Insert { t: u8, keys: Vec<u16>, len: u8 },
    Point { t: u8, key: u16 },
    Range { t: u8, lo: u16, hi: u16 },
    Count { t: u8 },
    Delete { t: u8, lo: u16, hi: u16 },
    Txn { t: u8, keys: Vec<u16>, len: u8, commit: bool },
    Flush,
    /// DROP TABLE + CREATE TABLE of the same name (page release and reuse), optionally checkpointed before the first insert
    Recreate { t: u8, flush: bool },
    /// rewrite the payload of a key range with a text of another length (grow / shrink, inline <-> overflow)
    Update { t: u8, lo: u16, hi: u16, len: u8 },
    Vacuum,
    /// close and open again with the same configuration
    Reopen,
}

#[derive(Clone, Debug, Serialize, Deserialize, Hash)]
pub struct Script {
    pub ntables: u8,
    pub pk: bool,
    pub ops: Vec<Op>,
    pub cfgs: Vec<Cfg>,
    /// cap on the number of rows ever inserted into one table (tuple version counter of the catalog row is a u8)
    pub max_rows: u16,
}

fn text(key: u16, len: u8) -> String {
    let n = 20 + (len as usize % 181);
    (0..n).map(|j| (b'a' + ((key as usize * 7 + j * 3) % 26) as u8) as char).collect()
}

#[derive(Clone, Debug, PartialEq)]
enum Obs {
    Rows(std::collections::BTreeMap<String, usize>),
    Affected(u64),
    Ddl,
    Err(String),
}

fn observe(r: Result<Out, crate::dbx::Err>) -> Obs {
    match r {
        Ok(Out::Rows { rows, .. }) => Obs::Rows(multiset(&rows)),
        Ok(Out::Affected(n)) => Obs::Affected(n),
        Ok(Out::Ddl(_)) => Obs::Ddl,
        Err(e) => Obs::Err(e.text()),
    }
}

fn same_class(a: &Obs, b: &Obs) -> bool {
    match (a, b) {
        (Obs::Err(_), Obs::Err(_)) => true,
        _ => a == b,
    }
}

struct RunOut {
    obs: Vec<(String, Obs)>,
    finals: Vec<(String, Obs)>,
    evictions: usize,
    oom_at: Option<usize>,
    panicked: Option<String>,
}

fn run_script(s: &Script, cfg: Cfg) -> RunOut {
    let mut out = RunOut { obs: vec![], finals: vec![], evictions: 0, oom_at: None, panicked: None };
    axmosdb::verif::io::start_recording();
    let mut db = match Db::create(cfg) {
        Ok(d) => d,
        Err(e) => {
            axmosdb::verif::io::stop_recording();
            out.panicked = Some(format!("create failed: {e}"));
            return out;
        }
    };
    let nt = s.ntables.clamp(1, 3);
    let mut inserted = vec![0u16; 3];
    let mut insert_stmts = 0usize;
    let mut stmt = |db: &mut Db, sql: String, out: &mut RunOut| -> bool {
        let before = axmosdb::verif::io::event_count();
        let r = db.exec(&sql);
        let _ = before;
        let o = observe(r);
        let stop = match &o {
            Obs::Err(e) if e.contains("Buffer pool got out of memory") => {
                out.oom_at = Some(out.obs.len());
                true
            }
            Obs::Err(e) if e.starts_with("PANIC") => {
                out.panicked = Some(format!("`{}`: {e}", truncate(&sql, 200)));
                true
            }
            _ => false,
        };
        out.obs.push((sql, o));
        !stop
    };
    for t in 0..nt {
        let sql = if s.pk { format!("CREATE TABLE t{t} (k INT NOT NULL, s TEXT, v INT, PRIMARY KEY (k))") } else { format!("CREATE TABLE t{t} (k INT, s TEXT, v INT)") };
        if !stmt(&mut db, sql, &mut out) {
            break;
        }
    }
    let mut flush_windows: Vec<(usize, usize)> = vec![];
    'ops: for op in &s.ops {
        if out.oom_at.is_some() || out.panicked.is_some() || !db.usable() {
            break;
        }
        match op {
            Op::Insert { t, keys, len } => {
                let t = (*t % nt) as usize;
                let keys: Vec<u16> = keys.iter().copied().take((s.max_rows.saturating_sub(inserted[t])) as usize).collect();
                if keys.is_empty() {
                    continue;
                }
                inserted[t] += keys.len() as u16;
                insert_stmts += 1;
                let rows: Vec<String> = keys.iter().map(|k| format!("({}, '{}', {})", k, text(*k, *len), *k as i32 - 300)).collect();
                if !stmt(&mut db, format!("INSERT INTO t{t} VALUES {}", rows.join(", ")), &mut out) {
                    break 'ops;
                }
            }
            Op::Point { t, key } => {
                if !stmt(&mut db, format!("SELECT * FROM t{} WHERE k = {}", t % nt, key), &mut out) {
                    break 'ops;
                }
            }
            Op::Range { t, lo, hi } => {
                let (lo, hi) = (lo.min(hi), lo.max(hi));
                if !stmt(&mut db, format!("SELECT k, v FROM t{} WHERE k >= {} AND k < {}", t % nt, lo, hi), &mut out) {
                    break 'ops;
                }
            }
            Op::Count { t } => {
                if !stmt(&mut db, format!("SELECT COUNT(*) FROM t{}", t % nt), &mut out) {
                    break 'ops;
                }
            }
            Op::Delete { t, lo, hi } => {
                let (lo, hi) = (lo.min(hi), lo.max(hi));
                if !stmt(&mut db, format!("DELETE FROM t{} WHERE k >= {} AND k < {}", t % nt, lo, hi.min(&(lo + 40))), &mut out) {
                    break 'ops;
                }
            }
            Op::Txn { t, keys, len, commit } => {
                let t = (*t % nt) as usize;
                let keys: Vec<u16> = keys.iter().copied().take((s.max_rows.saturating_sub(inserted[t])) as usize).collect();
                if keys.is_empty() || db.begin(0).is_err() {
                    continue;
                }
                inserted[t] += keys.len() as u16;
                insert_stmts += keys.len();
                for k in &keys {
                    let sql = format!("INSERT INTO t{t} VALUES ({}, '{}', {})", k, text(*k, *len), *k as i32 - 300);
                    let o = observe(db.sexec(0, &sql));
                    if let Obs::Err(e) = &o {
                        if e.contains("Buffer pool got out of memory") {
                            out.oom_at = Some(out.obs.len());
                        } else if e.starts_with("PANIC") {
                            out.panicked = Some(format!("`{}`: {e}", truncate(&sql, 200)));
                        }
                    }
                    out.obs.push((sql, o));
                }
                let sql = format!("SELECT COUNT(*) FROM t{t}");
                let o = observe(db.sexec(0, &sql));
                out.obs.push((format!("in txn: {sql}"), o));
                let r = if *commit { db.commit(0) } else { db.rollback(0) };
                out.obs.push((if *commit { "COMMIT".into() } else { "ROLLBACK".into() }, match r {
                    Ok(()) => Obs::Ddl,
                    Err(e) => Obs::Err(e.text()),
                }));
            }
            Op::Recreate { t, flush } => {
                let t = (*t % nt) as usize;
                // every INSERT statement adds a version to the table's catalog row; large catalog cells run into
                // the open B+tree findings on big cells (known.json, C10), which strike per page size
                if insert_stmts > 30 {
                    continue;
                }
                if !stmt(&mut db, format!("DROP TABLE t{t}"), &mut out) {
                    break 'ops;
                }
                let sql = if s.pk { format!("CREATE TABLE t{t} (k INT NOT NULL, s TEXT, v INT, PRIMARY KEY (k))") } else { format!("CREATE TABLE t{t} (k INT, s TEXT, v INT)") };
                if !stmt(&mut db, sql, &mut out) {
                    break 'ops;
                }
                inserted[t] = 0;
                if *flush {
                    let r = db.flush();
                    out.obs.push(("flush".into(), match r {
                        Ok(()) => Obs::Ddl,
                        Err(e) => Obs::Err(e.text()),
                    }));
                }
            }
            Op::Update { t, lo, hi, len } => {
                let (lo, hi) = (lo.min(hi), lo.max(hi));
                if !stmt(&mut db, format!("UPDATE t{} SET s = '{}' WHERE k >= {} AND k < {}", t % nt, text(*lo, *len), lo, hi.min(&(lo + 12))), &mut out) {
                    break 'ops;
                }
            }
            Op::Vacuum => {
                let r = db.vacuum();
                out.obs.push(("vacuum".into(), match r {
                    Ok(()) => Obs::Ddl,
                    Err(e) => {
                        let t = e.text();
                        if t.contains("Buffer pool got out of memory") {
                            out.oom_at = Some(out.obs.len());
                        } else if t.starts_with("PANIC") {
                            out.panicked = Some(format!("vacuum: {t}"));
                        }
                        Obs::Err(t)
                    }
                }));
            }
            Op::Reopen => {
                let r = db.reopen(cfg);
                out.obs.push(("reopen".into(), match r {
                    Ok(()) => Obs::Ddl,
                    Err(e) => Obs::Err(e.text()),
                }));
            }
            Op::Flush => {
                let a = axmosdb::verif::io::event_count();
                let r = db.flush();
                flush_windows.push((a, axmosdb::verif::io::event_count()));
                out.obs.push(("flush".into(), match r {
                    Ok(()) => Obs::Ddl,
                    Err(e) => {
                        let t = e.text();
                        if t.contains("Buffer pool got out of memory") {
                            out.oom_at = Some(out.obs.len());
                        }
                        Obs::Err(t)
                    }
                }));
            }
        }
    }
    if out.oom_at.is_none() && out.panicked.is_none() && db.usable() {
        for t in 0..nt {
            let sql = format!("SELECT * FROM t{t}");
            let o = observe(db.exec(&sql));
            out.finals.push((sql, o));
        }
    }
    let end = axmosdb::verif::io::event_count();
    let events = axmosdb::verif::io::stop_recording();
    // eviction write-back = a write to the data file outside a flush window (and outside the close that follows)
    for (i, e) in events.iter().enumerate().take(end) {
        if let IoKind::Write { offset, .. } = &e.kind {
            let is_db = e.path.file_name().map(|n| n == "db.axm").unwrap_or(false);
            if is_db && *offset > 0 && !flush_windows.iter().any(|(a, b)| i >= *a && i < *b) {
                out.evictions += 1;
            }
        }
    }
    drop(db);
    let _ = crate::panics::take();
    out
}

pub fn run_case(s: &Script) -> CaseOut {
    let mut out = CaseOut::pass();
    let reference = Cfg { page_size: 4096, cache: 10000, pool: 2, min_keys: 3, siblings: 2 };
    let base = run_script(s, reference);
    if let Some(p) = &base.panicked {
        out.labels.push("abandoned.reference_run_panicked".into());
        let _ = p;
        return out;
    }
    let mut evictions = 0;
    out.evals = 0;
    for cfg in &s.cfgs {
        out.evals += 1;
        let r = run_script(s, *cfg);
        evictions += r.evictions;
        let tags = vec![format!("page.{}", cfg.page_size), format!("cache.{}", cfg.cache), format!("pool.{}", cfg.pool), format!("min_keys.{}", cfg.min_keys), format!("siblings.{}", cfg.siblings)];
        if let Some(p) = &r.panicked {
            out.failure = Some(Failure::new("panic_in_one_configuration_only", format!("configuration {cfg:?}: {p} (the reference configuration ran the same script without a panic)")).with_tags(tags));
            break;
        }
        let upto = r.oom_at.unwrap_or(r.obs.len());
        if let Some(at) = r.oom_at {
            if cfg.cache >= 256 {
                out.failure = Some(Failure::new("out_of_memory_with_large_cache", format!("configuration {cfg:?}: statement #{at} `{}` failed with the buffer-pool out-of-memory error", truncate(&r.obs[at].0, 200))).with_tags(tags));
                break;
            }
            out.labels.push("oom_stopped".into());
        }
        for i in 0..upto.min(base.obs.len()) {
            if r.obs[i].0 != base.obs[i].0 {
                break; // scripts diverge only after an OOM stop
            }
            if !same_class(&r.obs[i].1, &base.obs[i].1) {
                out.failure = Some(Failure::new("result_differs_between_configurations", format!("configuration {cfg:?}, statement #{i} `{}`: {} ; reference configuration: {}", truncate(&r.obs[i].0, 200), truncate(&format!("{:?}", r.obs[i].1), 400), truncate(&format!("{:?}", base.obs[i].1), 400))).with_tags(tags.clone()));
                break;
            }
        }
        if out.failure.is_some() {
            break;
        }
        if r.oom_at.is_none() {
            for (a, b) in r.finals.iter().zip(&base.finals) {
                if !same_class(&a.1, &b.1) {
                    out.failure = Some(Failure::new("final_contents_differ_between_configurations", format!("configuration {cfg:?}, `{}`: {} ; reference: {}", a.0, truncate(&format!("{:?}", a.1), 400), truncate(&format!("{:?}", b.1), 400))).with_tags(tags.clone()));
                    break;
                }
            }
        }
        if out.failure.is_some() {
            break;
        }
    }
    if evictions > 0 {
        out.labels.push("eviction_write_back_seen".into());
        out.nontrivial.push(hash_of(s));
    }
    if s.ops.iter().any(|o| matches!(o, Op::Flush)) {
        out.labels.push("with_checkpoints".into());
    }
    if out.evals == 0 {
        out.evals = 1;
    }
    let _ = Val::Null;
    out
}

fn gen_cfg() -> BoxedStrategy<Cfg> {
    (prop_oneof![2 => Just(4096u32), 1 => Just(8192u32), 1 => Just(16384u32), 1 => Just(32768u32), 1 => Just(65536u32)], prop_oneof![6 => Just(24u32), 4 => Just(32u32), 4 => Just(64u32), 2 => Just(256u32), 2 => Just(10000u32), 1 => Just(65535u32), 1 => Just(65536u32), 1 => Just(131072u32)], prop_oneof![Just(1u8), Just(2u8), Just(8u8)], prop_oneof![3 => Just(3u8), 2 => Just(4u8), 2 => Just(6u8), 1 => Just(16u8), 1 => Just(32u8), 1 => Just(100u8)], 1u8..4)
        // a page must be able to hold min_keys cells of non-zero payload (debug assertion in storage/core/buffer.rs)
        .prop_map(|(page_size, cache, pool, min_keys, siblings)| Cfg { page_size, cache, pool, min_keys: (min_keys as u32).min(page_size / 128) as u8, siblings })
        .boxed()
}

fn gen_op() -> BoxedStrategy<Op> {
    prop_oneof![
        12 => (0u8..3, prop::collection::vec(0u16..600, 1..5), any::<u8>()).prop_map(|(t, keys, len)| Op::Insert { t, keys, len }),
        3 => (0u8..3, 0u16..600).prop_map(|(t, key)| Op::Point { t, key }),
        2 => (0u8..3, 0u16..600, 0u16..600).prop_map(|(t, lo, hi)| Op::Range { t, lo, hi }),
        1 => (0u8..3).prop_map(|t| Op::Count { t }),
        2 => (0u8..3, 0u16..600, 0u16..600).prop_map(|(t, lo, hi)| Op::Delete { t, lo, hi }),
        2 => (0u8..3, prop::collection::vec(0u16..600, 1..4), any::<u8>(), any::<bool>()).prop_map(|(t, keys, len, commit)| Op::Txn { t, keys, len, commit }),
        1 => Just(Op::Flush),
        1 => (0u8..3, any::<bool>()).prop_map(|(t, flush)| Op::Recreate { t, flush }),
        3 => (0u8..3, 0u16..600, 0u16..600, any::<u8>()).prop_map(|(t, lo, hi, len)| Op::Update { t, lo, hi, len }),
        1 => Just(Op::Vacuum),
        1 => Just(Op::Reopen),
    ]
    .boxed()
}

pub fn gen_script(max_ops: usize, max_rows: u16, flush: bool) -> BoxedStrategy<Script> {
    (1u8..4, any::<bool>(), prop::collection::vec(gen_op(), 40..max_ops), prop::collection::vec(gen_cfg(), 3..5), prop::option::weighted(0.6, (3usize..24, 0u8..3, any::<bool>())))
        .prop_map(move |(ntables, _pk, mut ops, cfgs, early)| {
            if let Some((at, t, flush)) = early {
                // release and reuse pages while the tables are still small
                ops.insert(at.min(ops.len()), Op::Recreate { t, flush });
            }
            if !flush {
                ops.retain(|o| !matches!(o, Op::Flush));
                for o in ops.iter_mut() {
                    if let Op::Recreate { flush, .. } = o {
                        *flush = false;
                    }
                }
            }
            Script { ntables, pk: false, ops, cfgs, max_rows }
        })
        .boxed()
}

pub fn run_shard(ctx: &mut ShardCtx) {
    if ctx.shard == 0 {
        ctx.witnesses(&replay);
    }
    let n = ctx.share(ctx.tier.pick(1280, 24_000));
    let max_rows = ctx.limit("rows_per_table", 180) as u16;
    let flush = !ctx.excluded("admin.flush_mid_workload");
    ctx.search("script", gen_script(ctx.tier.pick(260, 420), max_rows, flush), n, &run_case);
}

pub fn replay(kind: &str, case: &Value) -> CaseOut {
    match kind {
        "script" => match from_value::<Script>(case) {
            Ok(c) => run_case(&c),
            Err(e) => CaseOut::fail(Failure::new("bad_replay", e)),
        },
        _ => CaseOut::fail(Failure::new("bad_replay", format!("unknown kind {kind}"))),
    }
}
