//! C14 — statements issued from several threads all finish and stay correct. DESIGN.md §2/C14.
use crate::dbx::{Cfg, Out, convert};
use crate::engine::*;
use crate::scratch::Scratch;
use crate::sqlmodel::{Val, multiset};
use axmosdb::Database;
use proptest::prelude::*;
use serde::{Deserialize, Serialize};
use serde_json::Value;
use std::collections::BTreeMap;
use std::sync::mpsc;
use std::sync::{Arc, Barrier};
use std::time::{Duration, Instant};

pub fn info() -> PropertyInfo {
    PropertyInfo {
        id: "C14",
        level: "exploration",
        rule: "2-8 client threads share one Database (pool 2-8 workers). After a barrier each runs its generated program: CREATE TABLE of its own table (so DDL is concurrent), then inserts / updates / deletes / point and full selects on its own table, statements that must fail (unknown table), short sessions that commit or roll back, optional inserts of thread-private keys into one shared table and reads of it, with generated pacing (yield / 50-500 us sleeps) between statements; every run is a new sample of the thread schedule (the OS scheduler owns it: a failing case is re-run up to 60 times when replayed). Oracle: (a) every call returns within the hang limit (VERIF_C14_HANG_S, default 20 s) - a thread that makes no progress for that long is a deadlock/hang; (b) a statement fails iff its program says it must (anything else is an internal error; a dead worker is attributed by panic signature); (c) each thread reads its own acknowledged writes; (d) after all threads joined, every private table equals its owner's sequential model and the shared table equals the union of the acknowledged private-key inserts (any serial order of the committed transactions gives that state, because programs write disjoint keys). non-trivial = a run in which at least two threads overlapped in time on >= 4 statements each; distinct = hash of the programs.",
        assumptions: &[
            "sampling of schedules: the harness does not own the thread schedule (no scheduler hook is compiled in); pacing values are generated, interleavings are whatever the OS gives. A pass is one sample per case.",
            "programs write disjoint keys, so the serialisable outcome is unique and the oracle needs no search over serial orders",
            "row and version counts stay below the limits of open findings (known.json)",
        ],
        budget_s: (420, 3600),
        hang_is_violation: true,
        max_shards: 8,
        run_shard,
        replay,
    }
}

#[derive(Clone, Debug, Serialize, Deserialize, Hash)]
pub enum TOp {
    Insert(u8, i16),
    Update(u8, i16),
    Delete(u8),
    SelectAll,
    SelectKey(u8),
    Bad,
    /// session: inserts of keys (u8) then commit / rollback
    Txn(Vec<u8>, bool),
    Pace(u8),
    SharedInsert(u8),
    SharedRead,
}

#[derive(Clone, Debug, Serialize, Deserialize, Hash)]
pub struct MCase {
    pub threads: Vec<Vec<TOp>>,
    pub pool: u8,
    pub shared: bool,
    #[serde(default)]
    pub excluded: Vec<String>,
}

#[derive(Debug)]
enum Ev {
    Progress(usize),
    Fail(usize, String, String),
    Done(usize, BTreeMap<i64, i64>, Vec<i64>, usize, Instant, Instant),
}

fn hang_limit() -> Duration {
    Duration::from_secs(std::env::var("VERIF_C14_HANG_S").ok().and_then(|s| s.parse().ok()).unwrap_or(20))
}

fn exec(db: &Database, sql: &str) -> Result<Out, String> {
    db.execute(sql).map(convert).map_err(|e| e.to_string())
}

fn rows_of(o: Out) -> Option<Vec<Vec<Val>>> {
    match o {
        Out::Rows { rows, .. } => Some(rows),
        _ => None,
    }
}

fn client(db: Arc<Database>, t: usize, prog: Vec<TOp>, shared: bool, max_rows: usize, barrier: Arc<Barrier>, tx: mpsc::Sender<Ev>) {
    let mut model: BTreeMap<i64, i64> = BTreeMap::new();
    let mut shared_keys: Vec<i64> = vec![];
    let mut updates: BTreeMap<i64, u32> = BTreeMap::new();
    let mut inserted = 0usize;
    let mut done = 0usize;
    barrier.wait();
    let start = Instant::now();
    macro_rules! fail {
        ($clause:expr, $($arg:tt)*) => {{
            let _ = tx.send(Ev::Fail(t, $clause.to_string(), format!($($arg)*)));
            return;
        }};
    }
    let must_ok = |sql: &str| -> Result<Out, (String, String)> {
        match exec(&db, sql) {
            Ok(o) => Ok(o),
            Err(e) if e.contains("Task channel closed") => {
                let sig = crate::panics::take().last().map(|r| r.signature()).unwrap_or_else(|| "unknown panic".into());
                Err(("panic".into(), format!("thread {t}: `{sql}` killed a worker: {sig}")))
            }
            Err(e) => Err(("internal_error".into(), format!("thread {t}: `{sql}` must succeed (the program touches only this thread's keys), engine: {e}"))),
        }
    };
    match must_ok(&format!("CREATE TABLE c{t} (k INT, v INT)")) {
        Ok(_) => {}
        Err((c, d)) => fail!(c, "{d}"),
    }
    let _ = tx.send(Ev::Progress(t));
    for op in &prog {
        let r: Result<(), (String, String)> = (|| {
            match op {
                TOp::Pace(p) => {
                    match p % 4 {
                        0 => std::thread::yield_now(),
                        1 => std::thread::sleep(Duration::from_micros(50)),
                        2 => std::thread::sleep(Duration::from_micros(200)),
                        _ => std::thread::sleep(Duration::from_micros(500)),
                    }
                    return Ok(());
                }
                TOp::Insert(k, v) => {
                    let k = *k as i64 % 32;
                    if model.contains_key(&k) || inserted >= max_rows {
                        return Ok(());
                    }
                    inserted += 1;
                    match must_ok(&format!("INSERT INTO c{t} VALUES ({k}, {v})"))? {
                        Out::Affected(1) => {
                            model.insert(k, *v as i64);
                        }
                        o => return Err(("wrong_result".into(), format!("thread {t}: INSERT of one row returned {o:?}"))),
                    }
                }
                TOp::Update(k, v) => {
                    let k = *k as i64 % 32;
                    let n = updates.entry(k).or_default();
                    if *n >= 6 {
                        return Ok(());
                    }
                    *n += 1;
                    let want = if model.contains_key(&k) { 1 } else { 0 };
                    match must_ok(&format!("UPDATE c{t} SET v = {v} WHERE k = {k}"))? {
                        Out::Affected(n) if n == want => {
                            if want == 1 {
                                model.insert(k, *v as i64);
                            }
                        }
                        o => return Err(("wrong_result".into(), format!("thread {t}: UPDATE of key {k} returned {o:?}, this thread's model says {want} row"))),
                    }
                }
                TOp::Delete(k) => {
                    let k = *k as i64 % 32;
                    let want = if model.contains_key(&k) { 1 } else { 0 };
                    match must_ok(&format!("DELETE FROM c{t} WHERE k = {k}"))? {
                        Out::Affected(n) if n == want => {
                            model.remove(&k);
                        }
                        o => return Err(("wrong_result".into(), format!("thread {t}: DELETE of key {k} returned {o:?}, this thread's model says {want} row"))),
                    }
                }
                TOp::SelectAll => {
                    let rows = rows_of(must_ok(&format!("SELECT k, v FROM c{t}"))?).unwrap_or_default();
                    let want: Vec<Vec<Val>> = model.iter().map(|(k, v)| vec![Val::Int(*k), Val::Int(*v)]).collect();
                    if multiset(&rows) != multiset(&want) {
                        return Err(("own_writes_not_read".into(), format!("thread {t}: SELECT of its own table returns {}, it wrote {}", crate::workload::show_rows(&rows), crate::workload::show_rows(&want))));
                    }
                }
                TOp::SelectKey(k) => {
                    let k = *k as i64 % 32;
                    let rows = rows_of(must_ok(&format!("SELECT v FROM c{t} WHERE k = {k}"))?).unwrap_or_default();
                    let want: Vec<Vec<Val>> = model.get(&k).map(|v| vec![vec![Val::Int(*v)]]).unwrap_or_default();
                    if multiset(&rows) != multiset(&want) {
                        return Err(("own_writes_not_read".into(), format!("thread {t}: SELECT of key {k} returns {}, it wrote {}", crate::workload::show_rows(&rows), crate::workload::show_rows(&want))));
                    }
                }
                TOp::Bad => match exec(&db, &format!("INSERT INTO nosuch{t} VALUES (1, 1)")) {
                    Err(e) if e.contains("Task channel closed") => {
                        let sig = crate::panics::take().last().map(|r| r.signature()).unwrap_or_default();
                        return Err(("panic".into(), format!("thread {t}: statement on a missing table killed a worker: {sig}")));
                    }
                    Err(_) => {}
                    Ok(o) => return Err(("statement_should_fail".into(), format!("thread {t}: INSERT into a missing table returned {o:?}"))),
                },
                TOp::Txn(keys, commit) => {
                    let mut sess = db.session().map_err(|e| ("internal_error".to_string(), format!("thread {t}: session(): {e}")))?;
                    let mut staged = vec![];
                    for k in keys.iter().take(3) {
                        let k = 100 + (*k as i64 % 16);
                        if model.contains_key(&k) || staged.contains(&k) || inserted >= max_rows {
                            continue;
                        }
                        inserted += 1;
                        match sess.execute(&format!("INSERT INTO c{t} VALUES ({k}, {k})")) {
                            Ok(_) => staged.push(k),
                            Err(e) => return Err(("internal_error".into(), format!("thread {t}: INSERT inside its own session failed: {e}"))),
                        }
                    }
                    let r = if *commit { sess.commit_transaction() } else { sess.abort_transaction() };
                    drop(sess);
                    if let Err(e) = r {
                        return Err(("internal_error".into(), format!("thread {t}: {} failed: {e}", if *commit { "COMMIT" } else { "ROLLBACK" })));
                    }
                    if *commit {
                        for k in staged {
                            model.insert(k, k);
                        }
                    }
                }
                TOp::SharedInsert(k) => {
                    if !shared || shared_keys.len() >= 6 {
                        return Ok(());
                    }
                    let key = (t as i64) * 1000 + (*k as i64 % 40);
                    if shared_keys.contains(&key) {
                        return Ok(());
                    }
                    match must_ok(&format!("INSERT INTO shared VALUES ({key}, {t})"))? {
                        Out::Affected(1) => shared_keys.push(key),
                        o => return Err(("wrong_result".into(), format!("thread {t}: INSERT into the shared table returned {o:?}"))),
                    }
                }
                TOp::SharedRead => {
                    if !shared {
                        return Ok(());
                    }
                    let rows = rows_of(must_ok(&format!("SELECT k FROM shared WHERE w = {t}"))?).unwrap_or_default();
                    let want: Vec<Vec<Val>> = shared_keys.iter().map(|k| vec![Val::Int(*k)]).collect();
                    if multiset(&rows) != multiset(&want) {
                        return Err(("own_writes_not_read".into(), format!("thread {t}: its rows in the shared table read back as {}, it inserted {}", crate::workload::show_rows(&rows), crate::workload::show_rows(&want))));
                    }
                }
            }
            Ok(())
        })();
        if let Err((c, d)) = r {
            fail!(c, "{d}");
        }
        if !matches!(op, TOp::Pace(_)) {
            done += 1;
            let _ = tx.send(Ev::Progress(t));
        }
    }
    let _ = tx.send(Ev::Done(t, model, shared_keys, done, start, Instant::now()));
}

pub fn run_case(c: &MCase) -> CaseOut {
    let mut out = CaseOut::pass();
    let n = c.threads.len().clamp(2, 8);
    let pool = [2u8, 4, 8][c.pool as usize % 3];
    let mut tags: Vec<String> = vec![format!("threads.{n}"), format!("pool.{pool}")];
    let shared = c.shared && c.threads.iter().any(|p| p.iter().any(|o| matches!(o, TOp::SharedInsert(_) | TOp::SharedRead)));
    if shared {
        tags.push("shared.table".into());
    }
    if let Some(x) = tags.iter().find(|x| c.excluded.contains(x)) {
        out.excluded.push(x.clone());
        return out;
    }
    let max_rows = 20usize;
    let sc = Scratch::new();
    let _ = crate::panics::take();
    let db = match Database::create(sc.path("db.axm"), Cfg { pool, ..Cfg::default() }.to_db()) {
        Ok(d) => Arc::new(d),
        Err(e) => return CaseOut::fail(Failure::new("create_failed", e.to_string())),
    };
    if shared {
        if let Err(e) = exec(&db, "CREATE TABLE shared (k INT, w INT)") {
            return CaseOut::fail(Failure::new("create_failed", e));
        }
    }
    let barrier = Arc::new(Barrier::new(n));
    let (tx, rx) = mpsc::channel::<Ev>();
    let mut handles = vec![];
    for t in 0..n {
        let (db, prog, b, tx) = (db.clone(), c.threads[t].clone(), barrier.clone(), tx.clone());
        handles.push(std::thread::Builder::new().name(format!("c14-client-{t}")).spawn(move || client(db, t, prog, shared, max_rows, b, tx)).expect("spawn"));
    }
    drop(tx);
    let limit = hang_limit();
    let mut finished: BTreeMap<usize, (BTreeMap<i64, i64>, Vec<i64>, usize, Instant, Instant)> = BTreeMap::new();
    let mut progress: BTreeMap<usize, usize> = BTreeMap::new();
    let mut failure: Option<Failure> = None;
    loop {
        match rx.recv_timeout(limit) {
            Ok(Ev::Progress(t)) => *progress.entry(t).or_default() += 1,
            Ok(Ev::Fail(_t, clause, detail)) => {
                failure = Some(Failure::new(&clause, detail).with_tags(tags.clone()));
                break;
            }
            Ok(Ev::Done(t, m, sk, d, a, b)) => {
                finished.insert(t, (m, sk, d, a, b));
                if finished.len() == n {
                    break;
                }
            }
            Err(mpsc::RecvTimeoutError::Timeout) => {
                let stuck: Vec<String> = (0..n).filter(|t| !finished.contains_key(t)).map(|t| format!("thread {t} after {} of {} statements", progress.get(&t).copied().unwrap_or(0), c.threads[t].iter().filter(|o| !matches!(o, TOp::Pace(_))).count() + 1)).collect();
                failure = Some(Failure::new("hang", format!("no client made progress for {} s: {}", limit.as_secs(), stuck.join("; "))).with_tags(tags.clone()));
                break;
            }
            Err(mpsc::RecvTimeoutError::Disconnected) => break,
        }
    }
    out.evals = progress.values().sum::<usize>().max(1) as u64;
    if let Some(f) = failure {
        let hang = f.clause == "hang";
        out.failure = Some(f);
        if hang {
            // the stuck threads (and the database they hold) cannot be reclaimed: leak them
            std::mem::forget(handles);
            std::mem::forget(sc);
        } else {
            // the others may be blocked behind a dead worker: give them a moment, then leak
            let t0 = Instant::now();
            while handles.iter().any(|h| !h.is_finished()) && t0.elapsed() < Duration::from_secs(3) {
                std::thread::sleep(Duration::from_millis(20));
            }
            if handles.iter().any(|h| !h.is_finished()) {
                std::mem::forget(handles);
                std::mem::forget(sc);
            }
        }
        let _ = crate::panics::take();
        return out;
    }
    for h in handles {
        let _ = h.join();
    }
    // final state
    let mut all_shared: Vec<Vec<Val>> = vec![];
    for (t, (model, sk, _, _, _)) in &finished {
        match exec(&db, &format!("SELECT k, v FROM c{t}")) {
            Ok(Out::Rows { rows, .. }) => {
                let want: Vec<Vec<Val>> = model.iter().map(|(k, v)| vec![Val::Int(*k), Val::Int(*v)]).collect();
                if multiset(&rows) != multiset(&want) {
                    out.failure = Some(Failure::new("final_state_not_serializable", format!("after all clients finished, table c{t} holds {}, its only writer acknowledged {}", crate::workload::show_rows(&rows), crate::workload::show_rows(&want))).with_tags(tags.clone()));
                    break;
                }
            }
            Ok(o) => {
                out.failure = Some(Failure::new("final_state_not_serializable", format!("SELECT on c{t}: {o:?}")).with_tags(tags.clone()));
                break;
            }
            Err(e) => {
                out.failure = Some(Failure::new("final_state_unreadable", format!("after all clients finished, SELECT k, v FROM c{t} fails: {e}")).with_tags(tags.clone()));
                break;
            }
        }
        for k in sk {
            all_shared.push(vec![Val::Int(*k), Val::Int(*t as i64)]);
        }
    }
    if out.failure.is_none() && shared {
        match exec(&db, "SELECT k, w FROM shared") {
            Ok(Out::Rows { rows, .. }) => {
                if multiset(&rows) != multiset(&all_shared) {
                    out.failure = Some(Failure::new("final_state_not_serializable", format!("shared table holds {}, the acknowledged inserts are {}", crate::workload::show_rows(&rows), crate::workload::show_rows(&all_shared))).with_tags(tags.clone()));
                }
            }
            Ok(_) => {}
            Err(e) => out.failure = Some(Failure::new("final_state_unreadable", format!("SELECT on the shared table fails: {e}")).with_tags(tags.clone())),
        }
    }
    // overlap: at least two clients with >= 4 statements whose run intervals intersect
    let busy: Vec<(Instant, Instant)> = finished.values().filter(|f| f.2 >= 4).map(|f| (f.3, f.4)).collect();
    let overlapping = busy.iter().enumerate().any(|(i, a)| busy.iter().skip(i + 1).any(|b| a.0 < b.1 && b.0 < a.1));
    if overlapping {
        out.nontrivial.push(hash_of(&c.threads));
    }
    for t in &tags {
        out.labels.push(t.clone());
    }
    if !crate::panics::take().is_empty() && out.failure.is_none() {
        out.failure = Some(Failure::new("panic", "a worker panicked during the run (no client saw it)".to_string()).with_tags(tags));
    }
    out
}

fn gen_op(shared: bool) -> BoxedStrategy<TOp> {
    let mut v: Vec<(u32, BoxedStrategy<TOp>)> = vec![
        (8, (any::<u8>(), any::<i16>()).prop_map(|(k, v)| TOp::Insert(k, v)).boxed()),
        (3, (any::<u8>(), any::<i16>()).prop_map(|(k, v)| TOp::Update(k, v)).boxed()),
        (2, any::<u8>().prop_map(TOp::Delete).boxed()),
        (2, Just(TOp::SelectAll).boxed()),
        (2, any::<u8>().prop_map(TOp::SelectKey).boxed()),
        (2, Just(TOp::Bad).boxed()),
        (1, (prop::collection::vec(any::<u8>(), 1..4), any::<bool>()).prop_map(|(k, c)| TOp::Txn(k, c)).boxed()),
        (4, any::<u8>().prop_map(TOp::Pace).boxed()),
    ];
    if shared {
        v.push((3, any::<u8>().prop_map(TOp::SharedInsert).boxed()));
        v.push((2, Just(TOp::SharedRead).boxed()));
    }
    proptest::strategy::Union::new_weighted(v).boxed()
}

pub fn run_shard(ctx: &mut ShardCtx) {
    if ctx.shard == 0 {
        ctx.witnesses(&replay);
    }
    let excluded: Vec<String> = ctx.excludes.keys().cloned().collect();
    let n = ctx.share(ctx.tier.pick(16_000, 400_000));
    let strat = (any::<bool>(), 0u8..3).prop_flat_map(|(shared, pool)| (prop::collection::vec(prop::collection::vec(gen_op(shared), 8..40), 2..9), Just(shared), Just(pool))).prop_map(move |(threads, shared, pool)| MCase { threads, pool, shared, excluded: excluded.clone() });
    ctx.search("clients", strat, n, &run_case);
}

pub fn replay(kind: &str, case: &Value) -> CaseOut {
    match kind {
        "clients" => match from_value::<MCase>(case) {
            Ok(c) => {
                // a schedule-dependent failure may need several samples
                let mut last = CaseOut::pass();
                for _ in 0..60 {
                    last = run_case(&c);
                    if last.failure.is_some() {
                        break;
                    }
                }
                last
            }
            Err(e) => CaseOut::fail(Failure::new("bad_replay", e)),
        },
        _ => CaseOut::fail(Failure::new("bad_replay", format!("unknown kind {kind}"))),
    }
}
