//! C03 — ROLLBACK, a failed statement or a failed batch leaves no effects. DESIGN.md §2/C03.
use crate::dbx::Cfg;
use crate::engine::*;
use crate::workload::*;
use proptest::prelude::*;
use serde::{Deserialize, Serialize};
use serde_json::Value;
use std::collections::BTreeMap;

pub fn info() -> PropertyInfo {
    PropertyInfo {
        id: "C03",
        level: "exploration",
        rule: "sequential (non-overlapping) transactions over 1-3 small tables: each transaction is 1-6 generated statements (multi-row INSERT, UPDATE, DELETE, CREATE/DROP TABLE, CREATE UNIQUE INDEX, injected failing statements: duplicate key in a multi-row insert, NULL into NOT NULL, unknown table/column, syntax error, CREATE of an existing table) ended by COMMIT, ROLLBACK, session drop; autocommit statements and execute_batch lists (with failing members) in between. Oracle: reference model (snapshot of the committed state; rollback discards), compared through a fresh autocommit SELECT * of every table (and name resolution of every pool name) after every transaction end and every failed statement, and through a SELECT in the same session after a failed statement. non-trivial = a transaction or batch that wrote at least one row/object ended without commit (or a statement failed) and a read followed; distinct = hash of the step list.",
        assumptions: &[
            "the reference model in harness/src/sqlmodel.rs (set semantics of the generated statement shapes; NULLs never conflict in unique constraints)",
            "UPDATEs that would need set-oriented constraint checking (c = c + k over several rows of a unique column) are not generated",
            "a divergence from the model at a step that is neither a non-commit end nor a failed statement, in a history that had none of those before, is another property's business (C05/C07): the case is abandoned and counted, not reported here",
        ],
        budget_s: (300, 3000),
        hang_is_violation: false,
        max_shards: 16,
        run_shard,
        replay,
    }
}

#[derive(Clone, Debug, Serialize, Deserialize)]
pub struct Hist {
    pub cfg: Cfg,
    pub steps: Vec<Step>,
    /// generator feature tags that were switched off (open findings) when this case was generated
    #[serde(default)]
    pub excluded: Vec<String>,
}

pub fn classify(interp: &Interp, f: Failure, out: &mut CaseOut) -> Option<Failure> {
    let c = f.clause.as_str();
    let own = c.starts_with("rolled_back_txn_") || c == "failed_statement_partial_effect" || c == "failed_batch_partial_effect" || c.starts_with("session_") || c == "rollback_failed";
    if c.starts_with("pre_divergence.") {
        out.labels.push("abandoned.pre_divergence".into());
        return None;
    }
    if own {
        return Some(f);
    }
    if c == "panic" {
        return match interp.last_step_kind {
            "noncommit_end" => Some(Failure { clause: "rollback_panic".into(), ..f }),
            "failed_stmt" => Some(Failure { clause: "failed_statement_panic".into(), ..f }),
            _ => {
                out.labels.push("abandoned.panic_elsewhere".into());
                None
            }
        };
    }
    if interp.pending_noncommit_write {
        return Some(Failure { clause: format!("later_divergence_after_noncommit.{c}"), ..f });
    }
    out.labels.push(format!("abandoned.{c}"));
    None
}

pub fn run_with(c: &Hist) -> CaseOut {
    let excluded: BTreeMap<String, String> = c.excluded.iter().map(|t| (t.clone(), String::new())).collect();
    let excluded = &excluded;
    let mut out = CaseOut::pass();
    let mut it = match Interp::new(c.cfg, excluded.clone()) {
        Ok(i) => i,
        Err(f) => return CaseOut::fail(f),
    };
    it.sequential = true;
    let mut fail = None;
    let mut abandoned = false;
    for (i, st) in c.steps.iter().enumerate() {
        if !it.db.usable() {
            break;
        }
        if let Some(f) = it.step(i, st) {
            let before = out.labels.len();
            fail = classify(&it, f, &mut out);
            abandoned = out.labels.len() > before;
            break;
        }
    }
    if fail.is_none() && !abandoned && it.db.usable() {
        // end of history: every still-open session is dropped = rolled back
        let open: Vec<u8> = it.txns.keys().copied().collect();
        for s in open {
            if let Some(f) = it.step(c.steps.len(), &Step::DropSession(s)) {
                fail = classify(&it, f, &mut out);
                break;
            }
        }
    }
    for t in &it.skipped {
        out.excluded.push(t.clone());
    }
    for l in ["admin.reopen", "txn.rollback", "txn.drop_session", "failed_stmt", "batch.failing_member", "txn.noncommit_after_insert", "txn.noncommit_after_update", "txn.noncommit_after_delete", "txn.noncommit_after_create", "txn.noncommit_after_drop", "update.indexed_column"] {
        if it.tags.contains(l) {
            out.labels.push(l.to_string());
        }
    }
    if it.saw_noncommit_write_then_read {
        out.nontrivial.push(hash_of(&c.steps));
    }
    out.failure = fail;
    out
}

fn gen_cfg() -> BoxedStrategy<Cfg> {
    prop_oneof![4 => Just(Cfg::default()), 1 => Just(Cfg { cache: 64, ..Cfg::default() }), 1 => Just(Cfg { page_size: 8192, ..Cfg::default() })].boxed()
}

pub fn opts(ctx: &ShardCtx) -> GenOpts {
    let mut o = GenOpts { sessions: 1, reopen: true, max_steps: ctx.limit("steps", 22) as usize, ..GenOpts::default() };
    o.update_indexed = !ctx.excluded("update.indexed_column");
    o
}

/// Shape aimed at what survives a close/reopen: many short sessions that write and do not commit
/// (their ids cover every residue class of the persisted aborted-transaction bookkeeping), then a reopen.
fn gen_rb_reopen() -> BoxedStrategy<Vec<Step>> {
    let sess = (prop_oneof![
        3 => prop::collection::vec(gen_aval(false), 5).prop_map(|r| AStmt::Insert { t: 0, rows: vec![r], partial: false }),
        1 => gen_apred(false).prop_map(|pred| AStmt::Delete { t: 0, pred }),
    ], any::<bool>(), prop::bool::weighted(0.15))
        .prop_map(|(st, drop, commit)| vec![Step::Begin(0), Step::Exec(0, st), if commit { Step::Commit(0) } else if drop { Step::DropSession(0) } else { Step::Rollback(0) }]);
    (gen_create(&GenOpts { constraints: false, defaults: false, ..GenOpts::default() }), prop::collection::vec(prop::collection::vec(gen_aval(false), 5), 1..4), prop::collection::vec(sess, 4..24), 0u8..6, prop::collection::vec(gen_astmt(&GenOpts { ddl: false, bad: false, ..GenOpts::default() }), 0..4))
        .prop_map(|(c, rows, sessions, cfg, tail)| {
            let mut v = vec![Step::Auto(c), Step::Auto(AStmt::Insert { t: 0, rows, partial: false })];
            for s in sessions {
                v.extend(s);
            }
            v.push(Step::Reopen(cfg));
            v.extend(tail.into_iter().map(Step::Auto));
            v
        })
        .boxed()
}

pub fn run_shard(ctx: &mut ShardCtx) {
    if ctx.shard == 0 {
        ctx.witnesses(&replay);
    }
    let n = ctx.share(ctx.tier.pick(32_000, 600_000));
    let excluded: Vec<String> = ctx.excludes.keys().cloned().collect();
    let ex2 = excluded.clone();
    let strat = (gen_cfg(), gen_history(&opts(ctx))).prop_map(move |(cfg, steps)| Hist { cfg, steps, excluded: excluded.clone() });
    ctx.search("history", strat, n, &run_with);
    let strat2 = (gen_cfg(), gen_rb_reopen()).prop_map(move |(cfg, steps)| Hist { cfg, steps, excluded: ex2.clone() });
    ctx.search("history", strat2, n / 6, &run_with);
}

pub fn replay(kind: &str, case: &Value) -> CaseOut {
    match kind {
        "history" => match from_value::<Hist>(case) {
            Ok(c) => run_with(&c),
            Err(e) => CaseOut::fail(Failure::new("bad_replay", e)),
        },
        _ => CaseOut::fail(Failure::new("bad_replay", format!("unknown kind {kind}"))),
    }
}
