//! C10 — each B+tree is a correct ordered map with sound structure. DESIGN.md §2/C10.
use crate::dbx::Cfg;
use crate::engine::*;
use crate::scratch::Scratch;
use axmosdb::verif::tree::{Key, KeyKind, Tree};
use proptest::prelude::*;
use serde::{Deserialize, Serialize};
use serde_json::Value;
use std::collections::BTreeMap;

pub fn info() -> PropertyInfo {
    PropertyInfo {
        id: "C10",
        level: "exploration",
        rule: "operation sequences (insert / update growing and shrinking / upsert / remove / lookup / scan; 10-200 ops) on one raw tree through the facade, over key kinds {unsigned, signed incl. negatives, text incl. empty and prefixes, (int,text) composite}, a key universe of 48 so that duplicates, re-inserts and delete-everything-then-reinsert occur, payload sizes aimed at the page thresholds (page/4, page/2, page +-16, 2-5 pages) and configurations page size {4,8,16 KiB} x min keys {3,4,6} x siblings {1,2,3} x cache {small,large}. Oracle: BTreeMap model (result of every op; full in-order scan and lookups of all keys every few ops and at the end) plus the structural audit of harness/src/audit.rs. non-trivial = the tree reached height >= 2 (a split happened) and afterwards its height decreased or at least 8 removals ran (merge/borrow opportunities), or an overflow payload (> page size) was stored and later removed or replaced; distinct = hash of the case.",
        assumptions: &[
            "callers' preconditions are honoured: insert of an existing key and update/remove of a missing key must return an error (the model predicts it)",
            "text keys: 'key order' is the order of the engine's public Blob comparison (types::Blob: Ord); unsigned/signed keys: numeric order",
            "the BTreeMap model and the auditor in the harness are the trusted base",
        ],
        budget_s: (300, 3000),
        hang_is_violation: false,
        max_shards: 16,
        run_shard,
        replay,
    }
}

#[derive(Clone, Debug, Serialize, Deserialize, Hash)]
pub enum Sz {
    Small(u8),
    Medium(u16),
    /// page_size * num / 4 + delta
    Frac { num: u8, delta: i8 },
}

#[derive(Clone, Debug, Serialize, Deserialize, Hash)]
pub enum Op {
    Insert { k: u8, sz: Sz },
    Update { k: u8, sz: Sz },
    Upsert { k: u8, sz: Sz },
    Remove { k: u8 },
    Lookup { k: u8 },
    Scan,
}

#[derive(Clone, Debug, Serialize, Deserialize, Hash)]
pub struct TreeCase {
    pub cfg: Cfg,
    pub kind: u8,
    /// include integer keys beyond 2^53 (where comparison through f64 collapses neighbours)
    #[serde(default)]
    pub big_keys: bool,
    /// clamp payloads to sizes that never need an overflow chain
    #[serde(default)]
    pub inline_only: bool,
    /// hard cap on payload bytes (limits of open findings); 0 = none
    #[serde(default)]
    pub payload_cap: u32,
    /// number of distinct keys (0 = the default 48); 3 keeps the tree at one leaf so that payloads of any size,
    /// including overflow chains, can be exercised without the splits of large cells (open findings)
    #[serde(default)]
    pub universe: u8,
    /// mixed mode: the first `big_keys_n` keys of the universe carry payloads of about a third of a page, every
    /// other key a small one (redistribution between siblings with very unequal cells)
    #[serde(default)]
    pub big_first: u8,
    pub ops: Vec<Op>,
}

const UNIVERSE: usize = 48;

fn kind_of(k: u8) -> KeyKind {
    [KeyKind::U, KeyKind::I, KeyKind::T, KeyKind::IT][k as usize % 4]
}

fn text_key(i: usize) -> Vec<u8> {
    // includes the empty string, single letters, prefixes of each other, longer strings
    let base = ["", "a", "aa", "aaa", "ab", "b", "ba", "z", "zz", "A", "0", "é"];
    let b = base[i % base.len()];
    let rep = i / base.len();
    let mut s = b.as_bytes().to_vec();
    for r in 0..rep {
        s.extend_from_slice(format!("-{r}{}", "x".repeat(r * 9)).as_bytes());
    }
    s
}

pub fn make_key(kind: KeyKind, i: u8, big: bool) -> Key {
    let i = i as usize % UNIVERSE;
    match kind {
        KeyKind::U => {
            const B: [u64; 12] = [0, 1, 2, 3, 255, 256, 65535, 65536, u32::MAX as u64, u32::MAX as u64 + 1, u64::MAX - 1, u64::MAX];
            Key::U(if i < 12 { if big || B[i] < (1 << 53) { B[i] } else { (1 << 53) - (12 - i as u64) } } else { i as u64 * 1_000_003 + 17 })
        }
        KeyKind::I => {
            const B: [i64; 13] = [0, 1, -1, 2, -2, 127, -128, 255, -256, i32::MAX as i64, i32::MIN as i64, i64::MAX, i64::MIN];
            Key::I(if i < 13 { if big || B[i].unsigned_abs() < (1 << 53) { B[i] } else if B[i] > 0 { (1 << 53) - 1 } else { -(1 << 53) + 1 } } else if i % 2 == 0 { i as i64 * 7919 } else { -(i as i64) * 7919 })
        }
        KeyKind::T => Key::T(text_key(i)),
        KeyKind::IT => Key::IT([-2, -1, 0, 1][i % 4], text_key(i / 4)),
    }
}

/// Model order key.
fn order_key(k: &Key) -> (i128, axmosdb::types::Blob) {
    use axmosdb::types::Blob;
    match k {
        Key::U(u) => (*u as i128, Blob::from_unencoded_slice(&b""[..])),
        Key::I(i) => (*i as i128, Blob::from_unencoded_slice(&b""[..])),
        Key::T(t) => (0, Blob::from_unencoded_slice(t.as_slice())),
        Key::IT(a, t) => (*a as i128, Blob::from_unencoded_slice(t.as_slice())),
    }
}

fn cmp_keys(a: &Key, b: &Key) -> std::cmp::Ordering {
    let (x, y) = (order_key(a), order_key(b));
    x.0.cmp(&y.0).then_with(|| x.1.cmp(&y.1))
}

fn size_of(sz: &Sz, page: usize, cap: Option<usize>) -> usize {
    let n = size_raw(sz, page);
    match cap {
        Some(c) => n.min(c),
        None => n,
    }
}

fn size_raw(sz: &Sz, page: usize) -> usize {
    match sz {
        Sz::Small(n) => *n as usize % 48,
        Sz::Medium(n) => *n as usize % 700,
        Sz::Frac { num, delta } => ((page * (*num as usize % 21) / 4) as i64 + *delta as i64).max(0) as usize,
    }
}

/// Largest payload that is certainly stored inline (no overflow chain) whatever the page's fill state.
pub fn safe_inline(page: usize, min_keys: usize) -> usize {
    (page / 4).min(page / min_keys.max(1)) - 160
}

fn payload(k: u8, version: u32, len: usize) -> Vec<u8> {
    (0..len).map(|j| (k as usize * 131 + version as usize * 17 + j * 7 + 3) as u8).collect()
}

fn show_key(k: &Key) -> String {
    match k {
        Key::U(u) => format!("U{u}"),
        Key::I(i) => format!("I{i}"),
        Key::T(t) => format!("T{:?}", String::from_utf8_lossy(t)),
        Key::IT(a, t) => format!("IT({a},{:?})", String::from_utf8_lossy(t)),
    }
}

pub fn run_case(c: &TreeCase, audit_every: usize) -> CaseOut {
    let mut out = CaseOut::pass();
    let sc = Scratch::new();
    let before = crate::panics::count();
    let res = std::panic::catch_unwind(std::panic::AssertUnwindSafe(|| interpret(c, &sc, audit_every, &mut out)));
    out.failure = match res {
        Ok(f) => f,
        Err(_) => {
            let recs = crate::panics::take();
            let sig = recs.get(before.min(recs.len().saturating_sub(1))).map(|r| r.signature()).unwrap_or_default();
            Some(Failure::new("btree_panic", sig).with_tags(vec![format!("kind.{:?}", kind_of(c.kind))]))
        }
    };
    let _ = crate::panics::take();
    out
}

fn interpret(c: &TreeCase, sc: &Scratch, audit_every: usize, out: &mut CaseOut) -> Option<Failure> {
    let kind = kind_of(c.kind);
    let page = c.cfg.page_size as usize;
    let mut tree = match Tree::create(sc.path("tree.axm"), c.cfg.to_db(), kind) {
        Ok(t) => t,
        Err(e) => return Some(Failure::new("tree_create_failed", e.to_string())),
    };
    // model: key index -> (key, payload); ordered view computed on demand
    let mut model: BTreeMap<u8, (Key, Vec<u8>)> = BTreeMap::new();
    let mut version = 0u32;
    let mut tags: std::collections::BTreeSet<String> = Default::default();
    tags.insert(format!("kind.{kind:?}"));
    if c.big_keys && matches!(kind, KeyKind::U | KeyKind::I) {
        tags.insert("key.beyond_2p53".into());
    }
    let mut max_height = 1usize;
    let mut max_entries = 0usize;
    let mut shrank_after_height = false;
    let mut removes_at_height = 0u32;
    let mut overflow_keys: std::collections::BTreeSet<u8> = Default::default();
    let mut overflow_released = false;

    macro_rules! fail {
        ($clause:expr, $($arg:tt)*) => {{
            return Some(Failure::new($clause, format!($($arg)*)).with_tags(tags.clone()));
        }};
    }

    let universe: u8 = if c.universe == 0 { UNIVERSE as u8 } else { c.universe };
    if c.universe != 0 {
        tags.insert("tree.single_leaf".into());
    }
    for (step, op) in c.ops.iter().enumerate() {
        call_begin(|| format!("btree op {step}: {op:?}"));
        match op {
            Op::Insert { k, sz } | Op::Update { k, sz } | Op::Upsert { k, sz } => {
                let k = *k % universe;
                let key = make_key(kind, k, c.big_keys);
                let mut len = size_of(sz, page, if c.inline_only { Some(safe_inline(page, c.cfg.min_keys as usize)) } else { None });
                if c.payload_cap > 0 {
                    len = len.min(c.payload_cap as usize);
                }
                if c.big_first > 0 {
                    // about a third of a page for the first keys, small for the rest
                    // (small keys: tiny / small / medium by key, so that a leaf mixes very unequal cells)
                    len = if k < c.big_first { page * 3 / 10 + len % (page / 40) } else { match k % 3 { 0 => 8 + len % 24, 1 => 60 + len % 60, _ => page / 12 + len % (page / 14) } };
                }
                version += 1;
                let pl = payload(k, version, len);
                let exists = model.contains_key(&k);
                let (name, r, expect_ok) = match op {
                    Op::Insert { .. } => ("insert", tree.insert(&key, &pl), !exists),
                    Op::Update { .. } => ("update", tree.update(&key, &pl), exists),
                    _ => ("upsert", tree.upsert(&key, &pl), true),
                };
                tags.insert(name.to_string());
                if len > page {
                    tags.insert("payload.overflow".into());
                } else if len > page / 4 {
                    tags.insert("payload.large".into());
                }
                if len > safe_inline(page, c.cfg.min_keys as usize) {
                    tags.insert(if c.universe != 0 { "payload.overflow_cell_single_leaf".to_string() } else { "payload.overflow_cell".to_string() });
                }
                match (r, expect_ok) {
                    (Ok(()), true) => {
                        if overflow_keys.contains(&k) && len <= page {
                            overflow_released = true;
                        }
                        if len > page {
                            overflow_keys.insert(k);
                        } else {
                            overflow_keys.remove(&k);
                        }
                        model.insert(k, (key, pl));
                    }
                    (Err(_), false) => {}
                    (Ok(()), false) => fail!("op_should_fail", "step {step}: {name} of {} key {} succeeded", if exists { "existing" } else { "missing" }, show_key(&key)),
                    (Err(e), true) => fail!("op_failed", "step {step}: {name} key {} ({len} byte payload) failed: {e}", show_key(&key)),
                }
            }
            Op::Remove { k } => {
                let k = *k % universe;
                let key = make_key(kind, k, c.big_keys);
                tags.insert("remove".into());
                let exists = model.contains_key(&k);
                match (tree.remove(&key), exists) {
                    (Ok(()), true) => {
                        model.remove(&k);
                        if overflow_keys.remove(&k) {
                            overflow_released = true;
                        }
                    }
                    (Err(_), false) => {}
                    (Ok(()), false) => fail!("op_should_fail", "step {step}: remove of missing key {} succeeded", show_key(&key)),
                    (Err(e), true) => fail!("op_failed", "step {step}: remove of key {} failed: {e}", show_key(&key)),
                }
            }
            Op::Lookup { k } => {
                let k = *k % universe;
                let key = make_key(kind, k, c.big_keys);
                match (tree.lookup(&key), model.get(&k)) {
                    (Ok(Some(p)), Some((_, want))) if &p == want => {}
                    (Ok(None), None) => {}
                    (Ok(got), want) => fail!("lookup_mismatch", "step {step}: lookup {}: tree {:?} bytes, model {:?} bytes{}", show_key(&key), got.as_ref().map(|p| p.len()), want.map(|w| w.1.len()), if got.is_some() && want.is_some() { " (payload differs)" } else { "" }),
                    (Err(e), _) => fail!("lookup_failed", "step {step}: lookup {}: {e}", show_key(&key)),
                }
            }
            Op::Scan => {
                if let Some((cl, d)) = full_check(&mut tree, &model, kind, step) {
                    fail!(&cl, "{d}");
                }
            }
        }
        call_end();
        max_entries = max_entries.max(model.len());
        if let Ok(h) = tree.height() {
            max_height = max_height.max(h);
        }
        if let Ok(h) = tree.height() {
            if h < max_height {
                shrank_after_height = true;
            }
        }
        if max_height >= 2 && matches!(op, Op::Remove { .. }) {
            removes_at_height += 1;
            if removes_at_height >= 8 {
                shrank_after_height = true;
            }
        }
        if audit_every > 0 && (step + 1) % audit_every == 0 {
            if let Some((cl, d)) = full_check(&mut tree, &model, kind, step) {
                fail!(&cl, "{d}");
            }
            if let Some((cl, d)) = crate::audit::audit_tree(&tree.pages(), tree.root(), &|a, b| cmp_raw_keys(kind, a, b), true) {
                fail!(&format!("audit.{cl}"), "after step {step}: {d}");
            }
        }
    }
    if let Some((cl, d)) = full_check(&mut tree, &model, kind, c.ops.len()) {
        fail!(&cl, "{d}");
    }
    if let Some((cl, d)) = crate::audit::audit_tree(&tree.pages(), tree.root(), &|a, b| cmp_raw_keys(kind, a, b), true) {
        fail!(&format!("audit.{cl}"), "at end: {d}");
    }
    if max_height >= 2 {
        out.labels.push("height>=2".into());
    }
    if max_height >= 3 {
        out.labels.push("height>=3".into());
    }
    if shrank_after_height {
        out.labels.push("grew_then_shrank".into());
    }
    if overflow_released {
        out.labels.push("overflow_stored_then_released".into());
    }
    if shrank_after_height || overflow_released {
        out.nontrivial.push(hash_of(c));
    }
    None
}

/// Compares the key prefix of two stored cell payloads (used by the auditor for ordering):
/// decodes keys with the tree's own schema knowledge — here we only need relative order of cells,
/// so the auditor is given the model comparison over decoded keys via the scan instead. For raw
/// cells we fall back to "unknown" (None) unless the kind has fixed-width keys.
fn cmp_raw_keys(_kind: KeyKind, _a: &[u8], _b: &[u8]) -> Option<std::cmp::Ordering> {
    None
}

fn full_check(tree: &mut Tree, model: &BTreeMap<u8, (Key, Vec<u8>)>, _kind: KeyKind, step: usize) -> Option<(String, String)> {
    let got = match tree.scan() {
        Ok(g) => g,
        Err(e) => return Some(("scan_failed".into(), format!("after step {step}: scan failed: {e}"))),
    };
    let mut want: Vec<&(Key, Vec<u8>)> = model.values().collect();
    want.sort_by(|a, b| cmp_keys(&a.0, &b.0));
    if got.len() != want.len() {
        let gk: Vec<String> = got.iter().map(|(k, _)| show_key(k)).collect();
        let wk: Vec<String> = want.iter().map(|(k, _)| show_key(k)).collect();
        let clause = if got.len() < want.len() { "scan_missing_keys" } else { "scan_extra_keys" };
        return Some((clause.into(), format!("after step {step}: scan yields {} entries, model has {}: scan {:?} model {:?}", got.len(), want.len(), truncate(&format!("{gk:?}"), 600), truncate(&format!("{wk:?}"), 600))));
    }
    for (i, ((gk, gp), w)) in got.iter().zip(&want).enumerate() {
        if gk != &w.0 {
            // same set in another order, or a different set?
            let same_set = {
                let mut a: Vec<String> = got.iter().map(|(k, _)| show_key(k)).collect();
                let mut b: Vec<String> = want.iter().map(|(k, _)| show_key(k)).collect();
                a.sort();
                b.sort();
                a == b
            };
            let clause = if same_set { "scan_out_of_order" } else { "scan_wrong_keys" };
            return Some((clause.into(), format!("after step {step}: scan position {i}: got {} expected {}", show_key(gk), show_key(&w.0))));
        }
        if gp != &w.1 {
            return Some(("scan_wrong_payload".into(), format!("after step {step}: key {}: payload {} bytes, model {} bytes{}", show_key(gk), gp.len(), w.1.len(), if gp.len() == w.1.len() { " (content differs)" } else { "" })));
        }
    }
    // every key is found by lookup
    for (k, p) in model.values() {
        match tree.lookup(k) {
            Ok(Some(g)) if &g == p => {}
            Ok(g) => return Some(("lookup_mismatch".into(), format!("after step {step}: lookup {} returns {:?} bytes, model {} bytes", show_key(k), g.map(|x| x.len()), p.len()))),
            Err(e) => return Some(("lookup_failed".into(), format!("after step {step}: lookup {}: {e}", show_key(k)))),
        }
    }
    None
}

// ---------------------------------------------------------------------------------------------
// bulk shape: thousands of small uniform rows (height >= 3), then removals
// ---------------------------------------------------------------------------------------------

#[derive(Clone, Debug, Serialize, Deserialize, Hash)]
pub struct BulkCase {
    pub cfg: Cfg,
    /// 0 sequential ascending, 1 descending, 2 as listed
    pub order: u8,
    pub payload: u8,
    pub inserts: Vec<u16>,
    /// 0 none, 1 newest (largest) keys first, 2 oldest first, 3 as listed in `removes`
    pub remove_mode: u8,
    pub remove_count: u16,
    pub removes: Vec<u16>,
    /// tags excluded by open findings when the case was generated (witnesses carry their own list)
    #[serde(default)]
    pub excluded: Vec<String>,
}

pub fn run_bulk(c: &BulkCase) -> CaseOut {
    let mut out = CaseOut::pass();
    let sc = Scratch::new();
    let before = crate::panics::count();
    let res = std::panic::catch_unwind(std::panic::AssertUnwindSafe(|| bulk_interpret(c, &sc, &mut out)));
    out.failure = match res {
        Ok(f) => f,
        Err(_) => {
            let recs = crate::panics::take();
            let sig = recs.get(before.min(recs.len().saturating_sub(1))).map(|r| r.signature()).unwrap_or_default();
            Some(Failure::new("btree_panic", sig).with_tags(vec!["bulk".to_string()]))
        }
    };
    let _ = crate::panics::take();
    out
}

fn bulk_interpret(c: &BulkCase, sc: &Scratch, out: &mut CaseOut) -> Option<Failure> {
    let mut tree = match Tree::create(sc.path("tree.axm"), c.cfg.to_db(), KeyKind::U) {
        Ok(t) => t,
        Err(e) => return Some(Failure::new("tree_create_failed", e.to_string())),
    };
    let mut tags = vec!["bulk".to_string()];
    tags.push(["bulk.ascending", "bulk.descending", "bulk.random"][c.order as usize % 3].to_string());
    if c.remove_mode % 4 != 0 {
        tags.push("bulk.removals".into());
    }
    let plen = 60 + (c.payload as usize % 60);
    let mut keys: Vec<u64> = c.inserts.iter().map(|k| *k as u64).collect();
    match c.order % 3 {
        0 => {
            keys.sort();
            keys.dedup();
        }
        1 => {
            keys.sort();
            keys.dedup();
            keys.reverse();
        }
        _ => {}
    }
    let mut model: BTreeMap<u64, Vec<u8>> = BTreeMap::new();
    macro_rules! fail {
        ($clause:expr, $($arg:tt)*) => {{
            return Some(Failure::new($clause, format!($($arg)*)).with_tags(tags.clone()));
        }};
    }
    let check = |tree: &mut Tree, model: &BTreeMap<u64, Vec<u8>>, at: &str| -> Option<(String, String)> {
        let got = match tree.scan() {
            Ok(g) => g,
            Err(e) => return Some(("scan_failed".into(), format!("{at}: {e}"))),
        };
        if got.len() != model.len() {
            return Some((if got.len() < model.len() { "scan_missing_keys" } else { "scan_extra_keys" }.into(), format!("{at}: scan returned {} entries, model has {}", got.len(), model.len())));
        }
        for ((gk, gp), (mk, mp)) in got.iter().zip(model.iter()) {
            if gk != &Key::U(*mk) {
                return Some(("scan_out_of_order".into(), format!("{at}: scan yields {} where the model has U{mk}", show_key(gk))));
            }
            if gp != mp {
                return Some(("scan_wrong_payload".into(), format!("{at}: key U{mk}")));
            }
        }
        for (k, p) in model.iter() {
            match tree.lookup(&Key::U(*k)) {
                Ok(Some(g)) if &g == p => {}
                Ok(g) => return Some(("lookup_mismatch".into(), format!("{at}: key U{k} was inserted and never removed, lookup returns {:?}", g.map(|x| x.len())))),
                Err(e) => return Some(("lookup_failed".into(), format!("{at}: U{k}: {e}"))),
            }
        }
        crate::audit::audit_tree(&tree.pages(), tree.root(), &|_, _| None, true).map(|(c, d)| (format!("audit.{c}"), format!("{at}: {d}")))
    };
    for (i, k) in keys.iter().enumerate() {
        call_begin(|| format!("bulk insert #{i} key {k}"));
        let pl = payload((*k % 251) as u8, i as u32, plen);
        let r = tree.insert(&Key::U(*k), &pl);
        call_end();
        match (r, model.contains_key(k)) {
            (Ok(()), false) => {
                model.insert(*k, pl);
            }
            (Err(_), true) => {}
            (Ok(()), true) => fail!("op_should_fail", "insert #{i} of existing key U{k} succeeded"),
            (Err(e), false) => fail!("op_failed", "insert #{i} of key U{k} failed: {e}"),
        }
        if (i + 1) % 500 == 0 {
            if let Some((cl, d)) = check(&mut tree, &model, &format!("after {} inserts", i + 1)) {
                fail!(&cl, "{d}");
            }
        }
    }
    if let Some((cl, d)) = check(&mut tree, &model, "after all inserts") {
        fail!(&cl, "{d}");
    }
    let h = tree.height().unwrap_or(1);
    if h >= 3 {
        out.labels.push("bulk.height>=3".into());
    }
    if h >= 4 {
        out.labels.push("bulk.height>=4".into());
    }
    let victims: Vec<u64> = match c.remove_mode % 4 {
        0 => vec![],
        1 => model.keys().rev().take(c.remove_count as usize).copied().collect(),
        2 => model.keys().take(c.remove_count as usize).copied().collect(),
        _ => c.removes.iter().map(|k| *k as u64).collect(),
    };
    // removals from a tree of height >= 3 lose routing (open finding F-C10-removal-misroute-at-height-3): while it is
    // excluded the removal phase runs on lower trees only
    let victims = if h >= 3 && !victims.is_empty() && c.excluded.iter().any(|t| t == "bulk.removals_at_height3") {
        out.excluded.push("bulk.removals_at_height3".into());
        vec![]
    } else {
        if h >= 3 && !victims.is_empty() {
            tags.push("bulk.removals_at_height3".into());
        }
        victims
    };
    let mut tail_seen = tree.pages().page_zero().last_free_page;
    for (i, k) in victims.iter().enumerate() {
        call_begin(|| format!("bulk remove #{i} key {k}"));
        let r = tree.remove(&Key::U(*k));
        call_end();
        // whenever a page was freed: the free list must be well formed right now (a stale link on the tail
        // is overwritten by the next free)
        let tail = tree.pages().page_zero().last_free_page;
        if tail != tail_seen {
            tail_seen = tail;
            if let Some((cl, d)) = crate::audit::audit_free_list(&tree.pages()) {
                fail!(&format!("audit.{cl}"), "after removal #{i} of key U{k}: {d}");
            }
        }
        match (r, model.contains_key(k)) {
            (Ok(()), true) => {
                model.remove(k);
            }
            (Err(_), false) => {}
            (Ok(()), false) => fail!("op_should_fail", "remove #{i} of missing key U{k} succeeded"),
            (Err(e), true) => fail!("op_failed", "remove #{i} of key U{k} failed: {e}"),
        }
        if (i + 1) % 300 == 0 {
            if let Some((cl, d)) = check(&mut tree, &model, &format!("after {} removals", i + 1)) {
                fail!(&cl, "{d}");
            }
        }
    }
    if !victims.is_empty() {
        if let Some((cl, d)) = check(&mut tree, &model, "after all removals") {
            fail!(&cl, "{d}");
        }
        out.labels.push("bulk.with_removals".into());
    }
    if h >= 3 {
        out.nontrivial.push(hash_of(c));
    }
    None
}

pub fn gen_bulk(max_keys: usize, descending: bool, excluded: Vec<String>) -> BoxedStrategy<BulkCase> {
    (
        (prop_oneof![4 => Just(4096u32), 1 => Just(8192u32)], prop_oneof![Just(3u8), Just(4u8)], 1u8..4, Just(4000u32)).prop_map(|(page_size, min_keys, siblings, cache)| Cfg { page_size, cache, pool: 1, min_keys, siblings }),
        (0u8..3).prop_map(move |o| if o == 1 && !descending { 2 } else { o }),
        any::<u8>(),
        prop::collection::vec(any::<u16>(), (max_keys / 3)..max_keys),
        0u8..4,
        0u16..1200,
        prop::collection::vec(any::<u16>(), 0..600),
    )
        .prop_map(move |(cfg, order, payload, inserts, remove_mode, remove_count, removes)| BulkCase { cfg, order, payload, inserts, remove_mode, remove_count, removes, excluded: excluded.clone() })
        .boxed()
}

// ---------------------------------------------------------------------------------------------

fn gen_sz() -> BoxedStrategy<Sz> {
    prop_oneof![
        8 => any::<u8>().prop_map(Sz::Small),
        4 => any::<u16>().prop_map(Sz::Medium),
        3 => (1u8..5, -16i8..=16).prop_map(|(num, delta)| Sz::Frac { num, delta }),
        1 => (5u8..21, -16i8..=16).prop_map(|(num, delta)| Sz::Frac { num, delta }),
    ]
    .boxed()
}

fn gen_op(small_only: bool) -> BoxedStrategy<Op> {
    let _ = small_only;
    let sz = gen_sz();
    prop_oneof![
        10 => (any::<u8>(), sz.clone()).prop_map(|(k, sz)| Op::Insert { k, sz }),
        3 => (any::<u8>(), sz.clone()).prop_map(|(k, sz)| Op::Update { k, sz }),
        3 => (any::<u8>(), sz).prop_map(|(k, sz)| Op::Upsert { k, sz }),
        6 => any::<u8>().prop_map(|k| Op::Remove { k }),
        2 => any::<u8>().prop_map(|k| Op::Lookup { k }),
        1 => Just(Op::Scan),
    ]
    .boxed()
}

fn gen_cfg() -> BoxedStrategy<Cfg> {
    (prop_oneof![3 => Just(4096u32), 1 => Just(8192u32), 1 => Just(16384u32)], prop_oneof![Just(3u8), Just(4u8), Just(6u8)], 1u8..4, prop_oneof![Just(24u32), Just(64u32), Just(2000u32)])
        .prop_map(|(page_size, min_keys, siblings, cache)| Cfg { page_size, cache, pool: 1, min_keys, siblings })
        .boxed()
}

pub fn gen_case(max_ops: usize, small_only: bool, big_keys: bool, payload_cap: u32) -> BoxedStrategy<TreeCase> {
    (gen_cfg(), 0u8..4, prop::collection::vec(gen_op(small_only), 10..max_ops)).prop_map(move |(cfg, kind, ops)| TreeCase { cfg, kind, big_keys, inline_only: small_only, payload_cap, universe: 0, big_first: 0, ops }).boxed()
}

/// One-leaf trees (2-3 keys) with payloads of every size class: inline <-> overflow switches by update / upsert,
/// shrinking and growing in place, removal and re-insert of overflow rows.
pub fn gen_single_leaf() -> BoxedStrategy<TreeCase> {
    (gen_cfg(), 0u8..4, 2u8..4, prop::collection::vec(gen_op(false), 6..40)).prop_map(move |(cfg, kind, universe, ops)| TreeCase { cfg, kind, big_keys: false, inline_only: false, payload_cap: 0, universe, big_first: 0, ops }).boxed()
}

/// Two-leaf trees in which one or two cells take about a third of a page and the others are small.
pub fn gen_mixed() -> BoxedStrategy<TreeCase> {
    let op = prop_oneof![
        8 => (any::<u8>(), any::<u8>()).prop_map(|(k, s)| Op::Insert { k, sz: Sz::Small(s) }),
        2 => (any::<u8>(), any::<u8>()).prop_map(|(k, s)| Op::Upsert { k, sz: Sz::Small(s) }),
        7 => any::<u8>().prop_map(|k| Op::Remove { k }),
        1 => Just(Op::Scan),
    ];
    (prop_oneof![Just(4096u32), Just(8192u32)], prop_oneof![Just(3u8), Just(4u8)], 1u8..4, 0u8..2, 6u8..12, 1u8..3, prop::collection::vec(op, 12..60))
        .prop_map(|(page_size, min_keys, siblings, kind, universe, big_first, ops)| TreeCase { cfg: Cfg { page_size, cache: 2000, pool: 1, min_keys, siblings }, kind, big_keys: false, inline_only: false, payload_cap: 0, universe, big_first, ops })
        .boxed()
}

pub fn run_shard(ctx: &mut ShardCtx) {
    if ctx.shard == 0 {
        ctx.witnesses(&replay);
    }
    let small_only = ctx.excluded("payload.overflow_cell");
    let max_ops = ctx.limit("ops", 200) as usize;
    let n = ctx.share(ctx.tier.pick(12_000, 200_000));
    let every = ctx.tier.pick(8usize, 1usize);
    let big_keys = !ctx.excluded("key.beyond_2p53");
    let payload_cap = std::env::var("VERIF_C10_CAP").ok().and_then(|s| s.parse().ok()).unwrap_or_else(|| { let l = ctx.limit("payload_cap", u32::MAX as u64) as u32; if l == u32::MAX { 0 } else { l } });
    ctx.search("tree_ops", gen_case(max_ops, small_only, big_keys, payload_cap), n, &|c: &TreeCase| run_case(c, every));
    let ns = ctx.share(ctx.tier.pick(12_000, 300_000));
    ctx.search("tree_ops", gen_single_leaf(), ns, &|c: &TreeCase| run_case(c, 1));
    let nm = ctx.share(ctx.tier.pick(12_000, 300_000));
    ctx.search("tree_ops", gen_mixed(), nm, &|c: &TreeCase| run_case(c, 1));
    let nb = ctx.share(ctx.tier.pick(64, 2_000));
    ctx.search("tree_bulk", gen_bulk(ctx.limit("bulk_keys", ctx.tier.pick(3600, 9000)) as usize, !ctx.excluded("bulk.descending"), ctx.excludes.keys().cloned().collect()), nb, &run_bulk);
}

pub fn replay(kind: &str, case: &Value) -> CaseOut {
    match kind {
        "tree_ops" => match from_value::<TreeCase>(case) {
            Ok(c) => run_case(&c, 1),
            Err(e) => CaseOut::fail(Failure::new("bad_replay", e)),
        },
        "tree_bulk" => match from_value::<BulkCase>(case) {
            Ok(c) => run_bulk(&c),
            Err(e) => CaseOut::fail(Failure::new("bad_replay", e)),
        },
        _ => CaseOut::fail(Failure::new("bad_replay", format!("unknown kind {kind}"))),
    }
}
