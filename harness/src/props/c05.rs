//! C05 — query answers match SQL semantics. DESIGN.md §2/C05.
use crate::dbx::{Cfg, Db, Out};
use crate::engine::*;
use crate::qmodel::*;
use crate::sqlmodel::{CmpOp, Ty, Val};
use proptest::prelude::*;
use serde::{Deserialize, Serialize};
use serde_json::Value;

pub fn info() -> PropertyInfo {
    PropertyInfo {
        id: "C05",
        level: "exploration",
        rule: "a random schema (1-2 tables, 2-5 columns of INT/BIGINT/DOUBLE/TEXT/BOOL) is filled with 0-10 rows rich in NULLs, duplicates and small boundary values; then 8 generated statements run against it: SELECT with typed expression trees of depth <= 4 over = <> < <= > >= AND OR NOT IS [NOT] NULL [NOT] BETWEEN [NOT] IN [NOT] LIKE + - * / % || unary minus, printed with minimal parentheses by the documented precedence table; projections with computed columns; DISTINCT; ORDER BY (asc/desc, multi-key); LIMIT/OFFSET; two-table joins of every kind (INNER/LEFT/RIGHT/FULL/CROSS) with ON and WHERE predicates; GROUP BY with COUNT(*)/COUNT/SUM/MIN/MAX/AVG; UPDATE/DELETE with a predicate (reported count and table contents afterwards). Oracle: the reference evaluator of harness/src/qmodel.rs (three-valued logic; multiset comparison; ORDER BY as a sortedness predicate; LIMIT over ties accepts any valid window; numbers by value with 1e-9 relative tolerance); plus metamorphic: the minimal and the fully parenthesised print of a query give the same rows. non-trivial = the model answer is neither empty nor all candidate rows (the predicate decides), or an aggregate over >= 2 groups, or a join with both matched and unmatched rows; distinct = hash of (tables, statement).",
        assumptions: &[
            "generator soundness (DESIGN 1.15): operands are type-correct, integer arithmetic stays inside 32 bits (cases whose exact result leaves it are discarded and counted), divisors are non-zero literals, LIKE patterns use only % and _ over ASCII letters",
            "NULLs sort after all values ascending and before them descending (what the engine and PostgreSQL do; SQL leaves it open)",
            "text comparison is bytewise lexicographic",
            "SUM/AVG results are compared by value (the engine returns DOUBLE for integer SUM)",
        ],
        budget_s: (420, 3600),
        hang_is_violation: false,
        max_shards: 16,
        run_shard,
        replay,
    }
}

// ---------------------------------------------------------------------------------------
// abstract (generated) forms
// ---------------------------------------------------------------------------------------

#[derive(Clone, Debug, Serialize, Deserialize, Hash)]
pub enum AN {
    Col(u16),
    Lit(i8),
    Ar(u8, Box<AN>, Box<AN>),
    Neg(Box<AN>),
    /// ABS / ROUND / FLOOR / CEIL
    Fn1(u8, Box<AN>),
    Len(Box<AT>),
    Coalesce(Box<AN>, Box<AN>),
    NullIf(Box<AN>, Box<AN>),
}

#[derive(Clone, Debug, Serialize, Deserialize, Hash)]
pub enum AT {
    Col(u16),
    Lit(u8),
    Cat(Box<AT>, Box<AT>),
    Upper(Box<AT>),
    Lower(Box<AT>),
    Coalesce(Box<AT>, Box<AT>),
}

#[derive(Clone, Debug, Serialize, Deserialize, Hash)]
pub enum AB {
    CmpN(u8, AN, AN),
    CmpT(u8, AT, AT),
    And(Box<AB>, Box<AB>),
    Or(Box<AB>, Box<AB>),
    Not(Box<AB>),
    IsNullN(AN, bool),
    IsNullT(AT, bool),
    Between(AN, AN, AN, bool),
    In(AN, Vec<i8>, bool, bool),
    Like(AT, u8, bool),
    BoolCol(u16),
    /// column of the first table = column of the last table (equi-join shape; picks type-compatible columns)
    ColEq(u16, u16),
    /// sargable shape: column <op> literal (the shape the index rule looks for)
    Sarg(u16, u8, i8),
}

#[derive(Clone, Debug, Serialize, Deserialize, Hash)]
pub struct ATable {
    pub tys: Vec<u8>,
    pub rows: Vec<Vec<Option<u8>>>,
}

#[derive(Clone, Debug, Serialize, Deserialize, Hash)]
pub enum AQ {
    Select { t: u8, ncols: u8, computed: Option<AN>, distinct: bool, pred: Option<AB>, order: Vec<(u8, bool)>, limit: Option<(u8, u8)> },
    Join { kind: u8, on: AB, pred: Option<AB> },
    Agg { t: u8, group: Vec<u8>, aggs: Vec<(u8, u16)>, pred: Option<AB> },
    Update { t: u8, sets: Vec<(u16, AN)>, pred: Option<AB> },
    Delete { t: u8, pred: Option<AB> },
    Join3 { kinds: [u8; 2], ons: [AB; 2], pred: Option<AB> },
    Union { cols: [u16; 2], preds: [Option<AB>; 2], all: bool },
    AggOrdered { t: u8, group: u8, aggs: Vec<(u8, u16)>, desc: bool, #[serde(default)] agg_first: bool },
    /// INSERT with a column list (omitted columns become NULL) and 1-3 rows
    Insert { t: u8, cols: Vec<u8>, rows: Vec<Vec<Option<u8>>> },
    /// INSERT INTO t SELECT * FROM t [WHERE p]: the statement reads the table it writes
    InsertSelf { t: u8, pred: Option<AB> },
}

#[derive(Clone, Debug, Serialize, Deserialize, Hash)]
pub struct QCase {
    pub tables: Vec<ATable>,
    pub queries: Vec<AQ>,
    #[serde(default)]
    pub excluded: Vec<String>,
}

const TYS: [Ty; 5] = [Ty::Int, Ty::BigInt, Ty::Double, Ty::Text, Ty::Bool];
const TEXTS: [&str; 8] = ["", "a", "ab", "abc", "b", "ba", "B", "zz"];
const PATS: [&str; 8] = ["%", "a%", "%b", "_", "a_", "%a%", "ab", "_b%"];

fn val_for(ty: Ty, v: u8) -> Val {
    match ty {
        Ty::Int => Val::Int([0, 1, -1, 2, 3, 5, -3, 7][v as usize % 8]),
        Ty::BigInt => Val::Int([0, 1, -1, 2, 4, 100, -100, 1000][v as usize % 8]),
        Ty::Double => Val::Dbl([0.0, 1.0, -1.0, 0.5, 1.5, 2.0, -0.5, 2.5][v as usize % 8]),
        Ty::Text => Val::Text(TEXTS[v as usize % 8].to_string()),
        Ty::Bool => Val::Bool(v % 2 == 1),
    }
}

pub fn build_tables(ts: &[ATable]) -> Vec<TableData> {
    ts.iter()
        .enumerate()
        .map(|(ti, t)| {
            let cols: Vec<(String, Ty)> = t.tys.iter().enumerate().map(|(i, ty)| (format!("c{i}"), TYS[*ty as usize % 5])).collect();
            let rows = t.rows.iter().map(|r| cols.iter().enumerate().map(|(i, (_, ty))| match r.get(i).copied().flatten() {
                Some(v) => val_for(*ty, v),
                None => Val::Null,
            }).collect()).collect();
            TableData { name: format!("t{ti}"), cols, rows }
        })
        .collect()
}

/// Columns visible to an expression: (table position in FROM, column index, type).
pub type Scope = Vec<(u8, u8, Ty)>;

pub fn scope_of(tables: &[TableData], which: &[u8]) -> Scope {
    let mut s = vec![];
    for (pos, t) in which.iter().enumerate() {
        for (ci, (_, ty)) in tables[*t as usize].cols.iter().enumerate() {
            s.push((pos as u8, ci as u8, *ty));
        }
    }
    s
}

fn pick_col(scope: &Scope, raw: u16, want: &dyn Fn(Ty) -> bool) -> Option<(u8, u8, Ty)> {
    let c: Vec<&(u8, u8, Ty)> = scope.iter().filter(|(_, _, ty)| want(*ty)).collect();
    if c.is_empty() { None } else { Some(*c[pick_idx(raw, c.len())]) }
}

fn res_n(a: &AN, sc: &Scope) -> E {
    match a {
        AN::Col(r) => match pick_col(sc, *r, &|t| matches!(t, Ty::Int | Ty::BigInt | Ty::Double)) {
            Some((t, c, _)) => E::Col(t, c),
            None => E::Lit(Val::Int((*r % 5) as i64)),
        },
        AN::Lit(i) => E::Lit(Val::Int((*i % 7) as i64)),
        AN::Ar(op, x, y) => {
            let op = [ArOp::Add, ArOp::Sub, ArOp::Mul, ArOp::Div, ArOp::Mod][*op as usize % 5];
            let rhs = if matches!(op, ArOp::Div | ArOp::Mod) {
                // divisors are non-zero literals (division by zero is C16's subject)
                let k = match **y {
                    AN::Lit(i) => (i % 4) as i64,
                    _ => 2,
                };
                E::Lit(Val::Int(if k == 0 { 3 } else { k }))
            } else {
                res_n(y, sc)
            };
            E::Arith(op, Box::new(res_n(x, sc)), Box::new(rhs))
        }
        AN::Neg(x) => E::Neg(Box::new(res_n(x, sc))),
        AN::Fn1(f, x) => E::Func([FnKind::Abs, FnKind::Round, FnKind::Floor, FnKind::Ceil][*f as usize % 4], vec![res_n(x, sc)]),
        AN::Len(x) => E::Func(FnKind::Length, vec![res_t(x, sc)]),
        AN::Coalesce(x, y) | AN::NullIf(x, y) => {
            // both arguments of one static numeric class (the result type of a mixed COALESCE is the engine's
            // choice; the dynamically typed model cannot mirror it)
            let ty_of = |t: u8, c: u8| sc.iter().find(|(p, ci, _)| *p == t && *ci == c).map(|x| x.2).unwrap_or(Ty::Int);
            let (ex, ey) = (res_n(x, sc), res_n(y, sc));
            let ey = if ex.is_double(&ty_of) == ey.is_double(&ty_of) { ey } else { ex.clone() };
            E::Func(if matches!(a, AN::Coalesce(..)) { FnKind::Coalesce } else { FnKind::NullIf }, vec![ex, ey])
        }
    }
}

fn res_t(a: &AT, sc: &Scope) -> E {
    match a {
        AT::Col(r) => match pick_col(sc, *r, &|t| t == Ty::Text) {
            Some((t, c, _)) => E::Col(t, c),
            None => E::Lit(Val::Text(TEXTS[*r as usize % 8].to_string())),
        },
        AT::Lit(i) => E::Lit(Val::Text(TEXTS[*i as usize % 8].to_string())),
        AT::Cat(x, y) => E::Concat(Box::new(res_t(x, sc)), Box::new(res_t(y, sc))),
        AT::Upper(x) => E::Func(FnKind::Upper, vec![res_t(x, sc)]),
        AT::Lower(x) => E::Func(FnKind::Lower, vec![res_t(x, sc)]),
        AT::Coalesce(x, y) => E::Func(FnKind::Coalesce, vec![res_t(x, sc), res_t(y, sc)]),
    }
}

fn cmp_op(o: u8) -> CmpOp {
    [CmpOp::Eq, CmpOp::Ne, CmpOp::Lt, CmpOp::Le, CmpOp::Gt, CmpOp::Ge][o as usize % 6]
}

pub fn res_b(a: &AB, sc: &Scope) -> E {
    match a {
        AB::CmpN(o, x, y) => E::Cmp(cmp_op(*o), Box::new(res_n(x, sc)), Box::new(res_n(y, sc))),
        AB::CmpT(o, x, y) => E::Cmp(cmp_op(*o), Box::new(res_t(x, sc)), Box::new(res_t(y, sc))),
        AB::And(x, y) => E::And(Box::new(res_b(x, sc)), Box::new(res_b(y, sc))),
        AB::Or(x, y) => E::Or(Box::new(res_b(x, sc)), Box::new(res_b(y, sc))),
        AB::Not(x) => E::Not(Box::new(res_b(x, sc))),
        AB::IsNullN(x, n) => E::IsNull(Box::new(res_n(x, sc)), *n),
        AB::IsNullT(x, n) => E::IsNull(Box::new(res_t(x, sc)), *n),
        AB::Between(x, lo, hi, n) => E::Between(Box::new(res_n(x, sc)), Box::new(res_n(lo, sc)), Box::new(res_n(hi, sc)), *n),
        AB::In(x, list, with_null, n) => {
            let mut l: Vec<E> = list.iter().map(|i| E::Lit(Val::Int((*i % 7) as i64))).collect();
            if *with_null {
                l.push(E::Lit(Val::Null));
            }
            if l.is_empty() {
                l.push(E::Lit(Val::Int(1)));
            }
            E::In(Box::new(res_n(x, sc)), l, *n)
        }
        AB::Like(x, p, n) => E::Like(Box::new(res_t(x, sc)), PATS[*p as usize % 8].to_string(), *n),
        AB::ColEq(x, y) => {
            let last = sc.iter().map(|(p, _, _)| *p).max().unwrap_or(0);
            let numeric = |t: Ty| matches!(t, Ty::Int | Ty::BigInt | Ty::Double);
            let left: Scope = sc.iter().filter(|(p, _, _)| *p == 0).cloned().collect();
            let right: Scope = sc.iter().filter(|(p, _, _)| *p == last).cloned().collect();
            let l = left[pick_idx(*x, left.len())];
            let compatible = |t: Ty| if numeric(l.2) { numeric(t) } else { t == l.2 };
            match pick_col(&right, *y, &compatible) {
                Some(r) => E::Cmp(CmpOp::Eq, Box::new(E::Col(l.0, l.1)), Box::new(E::Col(r.0, r.1))),
                None => E::Cmp(CmpOp::Eq, Box::new(E::Lit(Val::Int(1))), Box::new(E::Lit(Val::Int(1)))),
            }
        }
        AB::Sarg(c, o, k) => {
            let (t, ci, ty) = sc[pick_idx(*c, sc.len())];
            let lit = match ty {
                Ty::Int | Ty::BigInt => Val::Int((*k % 12) as i64),
                Ty::Double => Val::Dbl((*k % 8) as f64 / 2.0),
                Ty::Text => Val::Text(TEXTS[(*k as u8) as usize % 8].to_string()),
                Ty::Bool => Val::Bool(*k % 2 == 0),
            };
            let op = if ty == Ty::Bool { CmpOp::Eq } else { cmp_op(*o) };
            E::Cmp(op, Box::new(E::Col(t, ci)), Box::new(E::Lit(lit)))
        }
        AB::BoolCol(r) => match pick_col(sc, *r, &|t| t == Ty::Bool) {
            Some((t, c, _)) => E::Col(t, c),
            None => E::Cmp(CmpOp::Eq, Box::new(E::Lit(Val::Int(1))), Box::new(E::Lit(Val::Int((*r % 2) as i64)))),
        },
    }
}

pub enum Resolved {
    Q(Query),
    Update { table: u8, sets: Vec<(u8, E)>, pred: Option<E> },
    Delete { table: u8, pred: Option<E> },
    Insert { table: u8, cols: Vec<u8>, rows: Vec<Vec<Val>> },
    InsertSelf { table: u8, pred: Option<E> },
}

pub fn resolve_q(q: &AQ, tables: &[TableData]) -> Resolved {
    let nt = tables.len() as u8;
    match q {
        AQ::Select { t, ncols, computed, distinct, pred, order, limit } => {
            let t = t % nt;
            let sc = scope_of(tables, &[t]);
            let n = tables[t as usize].cols.len();
            let k = (*ncols as usize % n) + 1;
            let mut proj: Vec<E> = (0..k).map(|c| E::Col(0, c as u8)).collect();
            if let Some(c) = computed {
                proj.push(res_n(c, &sc));
            }
            let np = proj.len();
            let order: Vec<(u8, bool)> = order.iter().map(|(c, d)| ((*c as usize % np) as u8, *d)).collect();
            let mut seen = std::collections::BTreeSet::new();
            let order: Vec<(u8, bool)> = order.into_iter().filter(|(c, _)| seen.insert(*c)).collect();
            Resolved::Q(Query::Select { table: t, proj, distinct: *distinct, pred: pred.as_ref().map(|p| res_b(p, &sc)), order, limit: limit.map(|(n, m)| ((n % 7) as u32, (m % 4) as u32)) })
        }
        AQ::Join { kind, on, pred } => {
            let (l, r) = (0u8, if nt > 1 { 1u8 } else { 0u8 });
            let sc = scope_of(tables, &[l, r]);
            let kind = [JoinKind::Inner, JoinKind::Left, JoinKind::Right, JoinKind::Full, JoinKind::Cross][*kind as usize % 5];
            Resolved::Q(Query::Join { left: l, right: r, kind, on: Some(res_b(on, &sc)), pred: pred.as_ref().map(|p| res_b(p, &sc)) })
        }
        AQ::Agg { t, group, aggs, pred } => {
            let t = t % nt;
            let sc = scope_of(tables, &[t]);
            let cols = &tables[t as usize].cols;
            let n = cols.len();
            let mut g: Vec<u8> = group.iter().map(|c| (*c as usize % n) as u8).collect();
            g.sort();
            g.dedup();
            let aggs: Vec<(AggFn, u8)> = aggs
                .iter()
                .map(|(f, c)| {
                    let f = [AggFn::CountStar, AggFn::Count, AggFn::Sum, AggFn::Min, AggFn::Max, AggFn::Avg][*f as usize % 6];
                    let numeric: Vec<usize> = (0..n).filter(|i| matches!(cols[*i].1, Ty::Int | Ty::BigInt | Ty::Double)).collect();
                    let col = match f {
                        AggFn::Sum | AggFn::Avg => {
                            if numeric.is_empty() {
                                return (AggFn::CountStar, 0);
                            }
                            numeric[pick_idx(*c, numeric.len())]
                        }
                        AggFn::Min | AggFn::Max => {
                            let ok: Vec<usize> = (0..n).filter(|i| cols[*i].1 != Ty::Bool).collect();
                            if ok.is_empty() {
                                return (AggFn::CountStar, 0);
                            }
                            ok[pick_idx(*c, ok.len())]
                        }
                        _ => pick_idx(*c, n),
                    };
                    (f, col as u8)
                })
                .collect();
            Resolved::Q(Query::Agg { table: t, group: g, aggs, pred: pred.as_ref().map(|p| res_b(p, &sc)) })
        }
        AQ::Update { t, sets, pred } => {
            let t = t % nt;
            let sc = scope_of(tables, &[t]);
            let cols = &tables[t as usize].cols;
            let ints: Vec<usize> = (0..cols.len()).filter(|i| matches!(cols[*i].1, Ty::Int | Ty::BigInt)).collect();
            if ints.is_empty() {
                return Resolved::Delete { table: t, pred: pred.as_ref().map(|p| res_b(p, &sc)) };
            }
            // integer-valued right-hand sides only (float -> int assignment is a coercion the generator avoids)
            let isc: Scope = sc.iter().filter(|(_, _, ty)| matches!(ty, Ty::Int | Ty::BigInt)).cloned().collect();
            let mut seen = std::collections::BTreeSet::new();
            // assigned values stay integer-typed: functions (ABS/ROUND/… return DOUBLE) are left out of SET
            fn plain(a: &AN) -> AN {
                match a {
                    AN::Fn1(_, x) => plain(x),
                    AN::Len(_) => AN::Lit(1),
                    AN::Coalesce(x, _) | AN::NullIf(x, _) => plain(x),
                    AN::Ar(o, x, y) => AN::Ar(*o, Box::new(plain(x)), Box::new(plain(y))),
                    AN::Neg(x) => AN::Neg(Box::new(plain(x))),
                    o => o.clone(),
                }
            }
            let sets: Vec<(u8, E)> = sets.iter().map(|(c, v)| (ints[pick_idx(*c, ints.len())] as u8, res_n(&plain(v), &isc))).filter(|(c, _)| seen.insert(*c)).collect();
            Resolved::Update { table: t, sets, pred: pred.as_ref().map(|p| res_b(p, &sc)) }
        }
        AQ::Delete { t, pred } => {
            let t = t % nt;
            let sc = scope_of(tables, &[t]);
            Resolved::Delete { table: t, pred: pred.as_ref().map(|p| res_b(p, &sc)) }
        }
        AQ::InsertSelf { t, pred } => {
            let t = t % nt;
            let sc = scope_of(tables, &[t]);
            Resolved::InsertSelf { table: t, pred: pred.as_ref().map(|p| res_b(p, &sc)) }
        }
        AQ::Join3 { kinds, ons, pred } => {
            let ts = [0u8, if nt > 1 { 1 } else { 0 }, if nt > 2 { 2 } else { 0 }];
            let jk = |k: u8| [JoinKind::Inner, JoinKind::Left, JoinKind::Inner, JoinKind::Cross, JoinKind::Right, JoinKind::Full][k as usize % 6];
            let sc2 = scope_of(tables, &[ts[0], ts[1]]);
            let sc3 = scope_of(tables, &[ts[0], ts[1], ts[2]]);
            Resolved::Q(Query::Join3 { tables: ts, kinds: [jk(kinds[0]), jk(kinds[1])], ons: [Some(res_b(&ons[0], &sc2)), Some(res_b(&ons[1], &sc3))], pred: pred.as_ref().map(|p| res_b(p, &sc3)) })
        }
        AQ::Union { cols, preds, all } => {
            let (l, r) = (0u8, if nt > 1 { 1u8 } else { 0u8 });
            let (lc, rc) = (&tables[l as usize].cols, &tables[r as usize].cols);
            // same-category columns on both sides
            let li = pick_idx(cols[0], lc.len());
            let numeric = |t: Ty| matches!(t, Ty::Int | Ty::BigInt | Ty::Double);
            let cands: Vec<usize> = (0..rc.len()).filter(|i| if numeric(lc[li].1) { numeric(rc[*i].1) } else { rc[*i].1 == lc[li].1 }).collect();
            if cands.is_empty() {
                return Resolved::Q(Query::Select { table: l, proj: vec![E::Col(0, li as u8)], distinct: true, pred: None, order: vec![], limit: None });
            }
            let ri = cands[pick_idx(cols[1], cands.len())];
            let (scl, scr) = (scope_of(tables, &[l]), scope_of(tables, &[r]));
            Resolved::Q(Query::Union { left: (l, li as u8, preds[0].as_ref().map(|p| res_b(p, &scl))), right: (r, ri as u8, preds[1].as_ref().map(|p| res_b(p, &scr))), all: *all })
        }
        AQ::AggOrdered { t, group, aggs, desc, agg_first } => {
            let t = t % nt;
            match resolve_q(&AQ::Agg { t, group: vec![*group], aggs: aggs.clone(), pred: None }, tables) {
                Resolved::Q(Query::Agg { table, group, aggs, .. }) if group.len() == 1 => Resolved::Q(Query::AggOrdered { table, group: group[0], aggs, desc: *desc, agg_first: *agg_first }),
                other => other,
            }
        }
        AQ::Insert { t, cols, rows } => {
            let t = t % nt;
            let tc = &tables[t as usize].cols;
            let mut cs: Vec<u8> = cols.iter().map(|c| (*c as usize % tc.len()) as u8).collect();
            let mut seen = std::collections::BTreeSet::new();
            cs.retain(|c| seen.insert(*c));
            let rows = rows.iter().take(3).map(|r| cs.iter().enumerate().map(|(i, c)| match r.get(i).copied().flatten() {
                Some(v) => val_for(tc[*c as usize].1, v),
                None => Val::Null,
            }).collect()).collect();
            Resolved::Insert { table: t, cols: cs, rows }
        }
    }
}

// ---------------------------------------------------------------------------------------
// running
// ---------------------------------------------------------------------------------------

fn load(db: &mut Db, tables: &[TableData]) -> Result<(), String> {
    for t in tables {
        let cols: Vec<String> = t.cols.iter().map(|(n, ty)| format!("{n} {}", ty.sql())).collect();
        db.exec(&format!("CREATE TABLE {} ({})", t.name, cols.join(", "))).map_err(|e| format!("create: {}", e.text()))?;
        for chunk in t.rows.chunks(4) {
            let rows: Vec<String> = chunk.iter().map(|r| format!("({})", r.iter().map(|v| v.sql()).collect::<Vec<_>>().join(", "))).collect();
            db.exec(&format!("INSERT INTO {} VALUES {}", t.name, rows.join(", "))).map_err(|e| format!("insert: {}", e.text()))?;
        }
    }
    Ok(())
}

pub fn features_of(q: &Resolved) -> Vec<String> {
    let mut f: Vec<&'static str> = vec![];
    let mut add = |e: &Option<E>, f: &mut Vec<&'static str>| {
        if let Some(e) = e {
            e.features(f)
        }
    };
    match q {
        Resolved::Q(Query::Select { proj, distinct, pred, order, limit, .. }) => {
            f.push("q.select");
            if *distinct {
                f.push("q.distinct");
            }
            if !order.is_empty() {
                f.push("q.order_by");
            }
            if limit.is_some() {
                f.push("q.limit");
            }
            for p in proj {
                p.features(&mut f);
            }
            add(pred, &mut f);
        }
        Resolved::Q(Query::Join { kind, on, pred, .. }) => {
            f.push(match kind {
                JoinKind::Inner => "q.join.inner",
                JoinKind::Left => "q.join.left",
                JoinKind::Right => "q.join.right",
                JoinKind::Full => "q.join.full",
                JoinKind::Cross => "q.join.cross",
            });
            add(on, &mut f);
            add(pred, &mut f);
        }
        Resolved::Q(Query::Agg { group, aggs, pred, .. }) => {
            f.push("q.aggregate");
            if !group.is_empty() {
                f.push("q.group_by");
            }
            for (a, _) in aggs {
                f.push(match a {
                    AggFn::CountStar => "agg.count_star",
                    AggFn::Count => "agg.count_col",
                    AggFn::Sum => "agg.sum",
                    AggFn::Min => "agg.min",
                    AggFn::Max => "agg.max",
                    AggFn::Avg => "agg.avg",
                });
            }
            add(pred, &mut f);
        }
        Resolved::Update { sets, pred, .. } => {
            f.push("q.update");
            if sets.len() > 1 {
                f.push("q.update.multi_set");
            }
            for (_, val) in sets {
                val.features(&mut f);
            }
            add(pred, &mut f);
        }
        Resolved::Delete { pred, .. } => {
            f.push("q.delete");
            add(pred, &mut f);
        }
        Resolved::Insert { .. } => f.push("q.insert_column_list"),
        Resolved::InsertSelf { pred, .. } => {
            f.push("q.insert_select_self");
            add(pred, &mut f);
        }
        Resolved::Q(Query::Join3 { kinds, ons, pred, .. }) => {
            f.push("q.join3");
            if kinds.iter().any(|k| !matches!(k, JoinKind::Inner | JoinKind::Cross)) {
                f.push("q.join3.outer");
            }
            for o in ons {
                add(o, &mut f);
            }
            add(pred, &mut f);
        }
        Resolved::Q(Query::Union { left, right, all }) => {
            f.push(if *all { "q.union_all" } else { "q.union" });
            add(&left.2, &mut f);
            add(&right.2, &mut f);
        }
        Resolved::Q(Query::AggOrdered { agg_first, .. }) => {
            f.push("q.aggregate");
            f.push("q.group_by_order_by");
            if *agg_first {
                f.push("q.aggregate_before_group_column");
            }
        }
    }
    let mut v: Vec<String> = f.into_iter().map(|s| s.to_string()).collect();
    v.sort();
    v.dedup();
    v
}

pub fn show_rows(rows: &[Vec<Val>]) -> String {
    let mut v: Vec<String> = rows.iter().map(|r| format!("({})", r.iter().map(|v| v.sql()).collect::<Vec<_>>().join(","))).collect();
    let n = v.len();
    if n > 14 {
        v.truncate(14);
        v.push(format!("… {n} rows"));
    }
    format!("[{}]", v.join(" "))
}

pub fn run_case(c: &QCase) -> CaseOut {
    let mut out = CaseOut::pass();
    out.evals = 0;
    let mut tables = build_tables(&c.tables);
    let mut db = match Db::create(Cfg { pool: 2, ..Cfg::default() }) {
        Ok(d) => d,
        Err(e) => return CaseOut::fail(Failure::new("create_failed", e)),
    };
    if let Err(e) = load(&mut db, &tables) {
        out.labels.push("abandoned.load_failed".into());
        let _ = e;
        out.evals = 1;
        return out;
    }
    let case_hash = hash_json(&c.tables);
    for (qi, aq) in c.queries.iter().enumerate() {
        if !db.usable() {
            break;
        }
        let rq = resolve_q(aq, &tables);
        let tags = features_of(&rq);
        if let Some(t) = tags.iter().find(|t| c.excluded.contains(t)) {
            out.excluded.push(t.clone());
            continue;
        }
        out.evals += 1;
        let fail = |clause: &str, detail: String| Failure::new(clause, detail).with_tags(tags.clone());
        match &rq {
            Resolved::Q(q) => {
                let want = match q.eval(&tables) {
                    Ok(w) if !q.undefined_somewhere(&tables) => w,
                    _ => {
                        out.labels.push("discarded.implementation_defined".into());
                        continue;
                    }
                };
                let sql = q.sql(&tables, false);
                let got = db.exec(&sql);
                let rows = match got {
                    Ok(Out::Rows { rows, .. }) => rows,
                    Ok(o) => {
                        out.failure = Some(fail("wrong_result_kind", format!("`{sql}` returned {o:?}")));
                        break;
                    }
                    Err(crate::dbx::Err::Panic(p)) => {
                        // the reference has an answer: a worker that dies is not one
                        out.failure = Some(fail("query_panicked", format!("`{sql}`: model has an answer ({} rows), engine worker panicked: {p}", want.rows.len())));
                        break;
                    }
                    Err(e) => {
                        out.failure = Some(fail("query_rejected", format!("`{sql}`: model has an answer ({} rows), engine: {}", want.rows.len(), e.text())));
                        break;
                    }
                };
                if let Err(why) = compare(&rows, &want) {
                    out.failure = Some(fail("query_result_mismatch", format!("`{sql}`: {why}\n  engine {}\n  model  {}\n  tables: {}", show_rows(&rows), show_rows(&want.rows), tables.iter().map(|t| format!("{}{}", t.name, show_rows(&t.rows))).collect::<Vec<_>>().join(" "))));
                    break;
                }
                // non-trivial?
                let candidates = match q {
                    Query::Select { table, .. } | Query::Agg { table, .. } | Query::AggOrdered { table, .. } => tables[*table as usize].rows.len(),
                    Query::Join { left, right, .. } => tables[*left as usize].rows.len() * tables[*right as usize].rows.len(),
                    Query::Join3 { tables: ts, .. } => ts.iter().map(|t| tables[*t as usize].rows.len()).product(),
                    Query::Union { left, right, .. } => tables[left.0 as usize].rows.len() + tables[right.0 as usize].rows.len(),
                };
                let nontrivial = match q {
                    Query::AggOrdered { .. } => want.rows.len() >= 2,
                    Query::Join3 { .. } => !want.rows.is_empty() && want.rows.len() < candidates.max(1),
                    Query::Union { all, .. } => !want.rows.is_empty() && (*all || want.rows.len() < candidates),
                    Query::Agg { group, .. } => !group.is_empty() && want.rows.len() >= 2,
                    Query::Join { kind, .. } => !matches!(kind, JoinKind::Cross) && !want.rows.is_empty() && want.rows.len() < candidates.max(1) + tables.iter().map(|t| t.rows.len()).sum::<usize>(),
                    _ => !want.rows.is_empty() && want.rows.len() < candidates,
                };
                if nontrivial {
                    out.nontrivial.push(hash_of(&(case_hash, qi)));
                }
                // metamorphic: parenthesisation must not matter
                let full = q.sql(&tables, true);
                if full != sql {
                    match db.exec(&full) {
                        Ok(Out::Rows { rows: r2, .. }) => {
                            if compare(&r2, &want).is_err() {
                                out.failure = Some(fail("parenthesization_changes_result", format!("minimal print `{sql}` and fully parenthesised print `{full}` give different rows: {} vs {}", show_rows(&rows), show_rows(&r2))));
                                break;
                            }
                        }
                        Err(crate::dbx::Err::Panic(_)) => break,
                        _ => {}
                    }
                }
            }
            Resolved::Update { table, sets, pred } => {
                let t = &tables[*table as usize];
                let names = |_: u8, c: u8| t.cols[c as usize].0.clone();
                let mut new_rows = t.rows.clone();
                let mut n = 0u64;
                let mut undefined = false;
                for r in new_rows.iter_mut() {
                    let ctx: [&[Val]; 1] = [r.as_slice()];
                    let hit = match pred {
                        None => Ok(Val::Bool(true)),
                        Some(p) => p.eval(&ctx),
                    };
                    match hit {
                        Ok(Val::Bool(true)) => {
                            // every right-hand side sees the row as it was before the statement
                            let mut news = vec![];
                            for (col, val) in sets {
                                match val.eval(&ctx) {
                                    Ok(v) => news.push((*col, v)),
                                    Err(_) => undefined = true,
                                }
                            }
                            for (col, v) in news {
                                r[col as usize] = v;
                            }
                            n += 1;
                        }
                        Ok(_) => {}
                        Err(_) => undefined = true,
                    }
                }
                if undefined {
                    out.labels.push("discarded.implementation_defined".into());
                    continue;
                }
                let sql = format!("UPDATE {} SET {}{}", t.name, sets.iter().map(|(c, v)| format!("{} = {}", t.cols[*c as usize].0, v.sql(&names, false))).collect::<Vec<_>>().join(", "), pred.as_ref().map(|p| format!(" WHERE {}", p.sql(&names, false))).unwrap_or_default());
                match db.exec(&sql) {
                    Ok(Out::Affected(k)) if k == n => {}
                    Ok(o) => {
                        out.failure = Some(fail("wrong_affected_count", format!("`{sql}`: engine {o:?}, model {n} rows")));
                        break;
                    }
                    Err(crate::dbx::Err::Panic(_)) => break,
                    Err(e) => {
                        out.failure = Some(fail("statement_rejected", format!("`{sql}`: {}", e.text())));
                        break;
                    }
                }
                let ti = *table as usize;
                tables[ti].rows = new_rows;
                if let Some(f) = check_table(&mut db, &tables[ti], &sql, &tags) {
                    out.failure = Some(f);
                    break;
                }
                if n > 0 && (n as usize) < tables[ti].rows.len() {
                    out.nontrivial.push(hash_of(&(case_hash, qi)));
                }
            }
            Resolved::Insert { table, cols, rows } => {
                let ti = *table as usize;
                if cols.is_empty() || rows.is_empty() || tables[ti].rows.len() + rows.len() > 14 {
                    continue;
                }
                let t = &tables[ti];
                let sql = format!("INSERT INTO {} ({}) VALUES {}", t.name, cols.iter().map(|c| t.cols[*c as usize].0.clone()).collect::<Vec<_>>().join(", "), rows.iter().map(|r| format!("({})", r.iter().map(|v| v.sql()).collect::<Vec<_>>().join(", "))).collect::<Vec<_>>().join(", "));
                match db.exec(&sql) {
                    Ok(Out::Affected(k)) if k == rows.len() as u64 => {}
                    Ok(o) => {
                        out.failure = Some(fail("wrong_affected_count", format!("`{sql}`: engine {o:?}, {} rows were given", rows.len())));
                        break;
                    }
                    Err(crate::dbx::Err::Panic(_)) => break,
                    Err(e) => {
                        out.failure = Some(fail("statement_rejected", format!("`{sql}`: {}", e.text())));
                        break;
                    }
                }
                let ncols = tables[ti].cols.len();
                for r in rows {
                    let mut full = vec![Val::Null; ncols];
                    for (i, c) in cols.iter().enumerate() {
                        full[*c as usize] = r[i].clone();
                    }
                    tables[ti].rows.push(full);
                }
                if let Some(f) = check_table(&mut db, &tables[ti], &sql, &tags) {
                    out.failure = Some(f);
                    break;
                }
                if cols.len() < ncols {
                    out.nontrivial.push(hash_of(&(case_hash, qi)));
                }
            }
            Resolved::InsertSelf { table, pred } => {
                let ti = *table as usize;
                let t = &tables[ti];
                let names = |_: u8, c: u8| t.cols[c as usize].0.clone();
                let mut copies = vec![];
                let mut undefined = false;
                for r in &t.rows {
                    let ctx: [&[Val]; 1] = [r.as_slice()];
                    match pred.as_ref().map(|p| p.eval(&ctx)).unwrap_or(Ok(Val::Bool(true))) {
                        Ok(Val::Bool(true)) => copies.push(r.clone()),
                        Ok(_) => {}
                        Err(_) => undefined = true,
                    }
                }
                if undefined {
                    out.labels.push("discarded.implementation_defined".into());
                    continue;
                }
                if t.rows.len() + copies.len() > 40 {
                    continue;
                }
                let n = copies.len() as u64;
                let sql = format!("INSERT INTO {} SELECT * FROM {}{}", t.name, t.name, pred.as_ref().map(|p| format!(" WHERE {}", p.sql(&names, false))).unwrap_or_default());
                match db.exec(&sql) {
                    Ok(Out::Affected(k)) if k == n => {}
                    Ok(o) => {
                        out.failure = Some(fail("wrong_affected_count", format!("`{sql}`: engine {o:?}, model {n} rows")));
                        break;
                    }
                    Err(crate::dbx::Err::Panic(p)) => {
                        out.failure = Some(fail("query_panicked", format!("`{sql}`: engine worker panicked: {p}")));
                        break;
                    }
                    Err(e) => {
                        out.failure = Some(fail("statement_rejected", format!("`{sql}`: {}", e.text())));
                        break;
                    }
                }
                tables[ti].rows.extend(copies);
                if let Some(f) = check_table(&mut db, &tables[ti], &sql, &tags) {
                    out.failure = Some(f);
                    break;
                }
                if n > 0 {
                    out.nontrivial.push(hash_of(&(case_hash, qi)));
                }
            }
            Resolved::Delete { table, pred } => {
                let t = &tables[*table as usize];
                let names = |_: u8, c: u8| t.cols[c as usize].0.clone();
                let mut keep = vec![];
                let mut n = 0u64;
                let mut undefined = false;
                for r in &t.rows {
                    let ctx: [&[Val]; 1] = [r.as_slice()];
                    match pred.as_ref().map(|p| p.eval(&ctx)).unwrap_or(Ok(Val::Bool(true))) {
                        Ok(Val::Bool(true)) => n += 1,
                        Ok(_) => keep.push(r.clone()),
                        Err(_) => undefined = true,
                    }
                }
                if undefined {
                    out.labels.push("discarded.implementation_defined".into());
                    continue;
                }
                let sql = format!("DELETE FROM {}{}", t.name, pred.as_ref().map(|p| format!(" WHERE {}", p.sql(&names, false))).unwrap_or_default());
                match db.exec(&sql) {
                    Ok(Out::Affected(k)) if k == n => {}
                    Ok(o) => {
                        out.failure = Some(fail("wrong_affected_count", format!("`{sql}`: engine {o:?}, model {n} rows")));
                        break;
                    }
                    Err(crate::dbx::Err::Panic(_)) => break,
                    Err(e) => {
                        out.failure = Some(fail("statement_rejected", format!("`{sql}`: {}", e.text())));
                        break;
                    }
                }
                let ti = *table as usize;
                let before = tables[ti].rows.len();
                tables[ti].rows = keep;
                if let Some(f) = check_table(&mut db, &tables[ti], &sql, &tags) {
                    out.failure = Some(f);
                    break;
                }
                if n > 0 && (n as usize) < before {
                    out.nontrivial.push(hash_of(&(case_hash, qi)));
                }
            }
        }
        for t in &tags {
            if t.starts_with("q.") || t.starts_with("expr.fn") {
                out.labels.push(t.clone());
            }
        }
    }
    if out.evals == 0 {
        out.evals = 1;
    }
    let _ = crate::panics::take();
    out
}

fn check_table(db: &mut Db, t: &TableData, after: &str, tags: &[String]) -> Option<Failure> {
    match db.exec(&format!("SELECT * FROM {}", t.name)) {
        Ok(Out::Rows { rows, .. }) => {
            let want = QOut { rows: t.rows.clone(), order: vec![], window: None };
            compare(&rows, &want).err().map(|why| Failure::new("dml_changed_wrong_rows", format!("after `{after}`: {why}\n  engine {}\n  model  {}", show_rows(&rows), show_rows(&t.rows))).with_tags(tags.to_vec()))
        }
        Ok(o) => Some(Failure::new("wrong_result_kind", format!("{o:?}"))),
        Err(crate::dbx::Err::Panic(_)) => None,
        Err(e) => Some(Failure::new("table_unreadable", format!("after `{after}`: {}", e.text())).with_tags(tags.to_vec())),
    }
}

// ---------------------------------------------------------------------------------------
// generators
// ---------------------------------------------------------------------------------------

fn gen_an() -> BoxedStrategy<AN> {
    let leaf = prop_oneof![3 => any::<u16>().prop_map(AN::Col), 2 => any::<i8>().prop_map(AN::Lit)];
    leaf.prop_recursive(3, 8, 2, |inner| {
        prop_oneof![
            8 => (0u8..5, inner.clone(), inner.clone()).prop_map(|(o, a, b)| AN::Ar(o, Box::new(a), Box::new(b))),
            2 => inner.clone().prop_map(|a| AN::Neg(Box::new(a))),
            2 => (0u8..4, inner.clone()).prop_map(|(f, a)| AN::Fn1(f, Box::new(a))),
            1 => gen_at().prop_map(|a| AN::Len(Box::new(a))),
            1 => (inner.clone(), inner.clone()).prop_map(|(a, b)| AN::Coalesce(Box::new(a), Box::new(b))),
            1 => (inner.clone(), inner).prop_map(|(a, b)| AN::NullIf(Box::new(a), Box::new(b))),
        ]
    })
    .boxed()
}

fn gen_at() -> BoxedStrategy<AT> {
    let leaf = prop_oneof![3 => any::<u16>().prop_map(AT::Col), 2 => any::<u8>().prop_map(AT::Lit)];
    leaf.prop_recursive(2, 4, 2, |inner| {
        prop_oneof![
            4 => (inner.clone(), inner.clone()).prop_map(|(a, b)| AT::Cat(Box::new(a), Box::new(b))),
            1 => inner.clone().prop_map(|a| AT::Upper(Box::new(a))),
            1 => inner.clone().prop_map(|a| AT::Lower(Box::new(a))),
            1 => (inner.clone(), inner).prop_map(|(a, b)| AT::Coalesce(Box::new(a), Box::new(b))),
        ]
    })
    .boxed()
}

pub fn gen_ab() -> BoxedStrategy<AB> {
    let leaf = prop_oneof![
        6 => (0u8..6, gen_an(), gen_an()).prop_map(|(o, a, b)| AB::CmpN(o, a, b)),
        3 => (0u8..6, gen_at(), gen_at()).prop_map(|(o, a, b)| AB::CmpT(o, a, b)),
        2 => (gen_an(), any::<bool>()).prop_map(|(a, n)| AB::IsNullN(a, n)),
        1 => (gen_at(), any::<bool>()).prop_map(|(a, n)| AB::IsNullT(a, n)),
        2 => (gen_an(), gen_an(), gen_an(), any::<bool>()).prop_map(|(a, b, c, n)| AB::Between(a, b, c, n)),
        2 => (gen_an(), prop::collection::vec(any::<i8>(), 1..4), prop::bool::weighted(0.2), any::<bool>()).prop_map(|(a, l, w, n)| AB::In(a, l, w, n)),
        2 => (gen_at(), any::<u8>(), any::<bool>()).prop_map(|(a, p, n)| AB::Like(a, p, n)),
        1 => any::<u16>().prop_map(AB::BoolCol),
        2 => (any::<u16>(), any::<u16>()).prop_map(|(a, b)| AB::ColEq(a, b)),
        4 => (any::<u16>(), 0u8..6, any::<i8>()).prop_map(|(c, o, k)| AB::Sarg(c, o, k)),
    ];
    leaf.prop_recursive(3, 12, 2, |inner| {
        prop_oneof![
            3 => (inner.clone(), inner.clone()).prop_map(|(a, b)| AB::And(Box::new(a), Box::new(b))),
            3 => (inner.clone(), inner.clone()).prop_map(|(a, b)| AB::Or(Box::new(a), Box::new(b))),
            2 => inner.prop_map(|a| AB::Not(Box::new(a))),
        ]
    })
    .boxed()
}

fn gen_table() -> BoxedStrategy<ATable> {
    prop::collection::vec(0u8..5, 2..6).prop_flat_map(|tys| {
        let n = tys.len();
        (Just(tys), prop::collection::vec(prop::collection::vec(prop::option::weighted(0.8, 0u8..8), n), 0..11))
    }).prop_map(|(tys, rows)| ATable { tys, rows }).boxed()
}

pub fn join_on() -> BoxedStrategy<AB> {
    prop_oneof![2 => gen_ab(), 3 => (any::<u16>(), any::<u16>()).prop_map(|(a, b)| AB::ColEq(a, b)), 1 => ((any::<u16>(), any::<u16>()), gen_ab()).prop_map(|((a, b), r)| AB::And(Box::new(AB::ColEq(a, b)), Box::new(r)))].boxed()
}

pub fn gen_aq() -> BoxedStrategy<AQ> {
    prop_oneof![
        8 => (0u8..2, 0u8..5, prop::option::weighted(0.3, gen_an()), prop::bool::weighted(0.15), prop::option::weighted(0.85, gen_ab()), prop::collection::vec((0u8..5, any::<bool>()), 0..3), prop::option::weighted(0.25, (0u8..7, 0u8..4)))
            .prop_map(|(t, ncols, computed, distinct, pred, order, limit)| AQ::Select { t, ncols, computed, distinct, pred, order, limit }),
        4 => (0u8..5, prop_oneof![2 => gen_ab(), 2 => (any::<u16>(), any::<u16>()).prop_map(|(a, b)| AB::ColEq(a, b)), 1 => ((any::<u16>(), any::<u16>()), gen_ab()).prop_map(|((a, b), r)| AB::And(Box::new(AB::ColEq(a, b)), Box::new(r)))], prop::option::weighted(0.3, gen_ab())).prop_map(|(kind, on, pred)| AQ::Join { kind, on, pred }),
        3 => (0u8..2, prop::collection::vec(0u8..5, 0..3), prop::collection::vec((0u8..6, any::<u16>()), 1..4), prop::option::weighted(0.3, gen_ab())).prop_map(|(t, group, aggs, pred)| AQ::Agg { t, group, aggs, pred }),
        2 => (0u8..2, prop::collection::vec((any::<u16>(), gen_an()), 1..4), prop::option::weighted(0.8, gen_ab())).prop_map(|(t, sets, pred)| AQ::Update { t, sets, pred }),
        1 => (0u8..2, prop::option::weighted(0.9, gen_ab())).prop_map(|(t, pred)| AQ::Delete { t, pred }),
        1 => (0u8..3, prop::option::weighted(0.6, gen_ab())).prop_map(|(t, pred)| AQ::InsertSelf { t, pred }),
        3 => ([0u8..6, 0u8..6], [join_on(), join_on()], prop::option::weighted(0.3, gen_ab())).prop_map(|(kinds, ons, pred)| AQ::Join3 { kinds, ons, pred }),
        // composite upper key that extends the lower join's key: a.x = b.m, then a.x = c.p AND a.y = c.q
        2 => ([0u8..6, 0u8..6], any::<u16>(), any::<u16>(), any::<u16>(), any::<u16>(), any::<u16>()).prop_map(|(kinds, x, m, p, y, q)| AQ::Join3 { kinds, ons: [AB::ColEq(x, m), AB::And(Box::new(AB::ColEq(x, p)), Box::new(AB::ColEq(y, q)))], pred: None }),
        // an outer join below, and the upper join on the lower join's first left key (a plan may be tempted to
        // take the lower join's output as already ordered by it)
        2 => ([4u8..6, 0u8..6], any::<u16>(), any::<u16>(), any::<u16>(), prop::option::weighted(0.5, (any::<u16>(), any::<u16>()))).prop_map(|(kinds, x, m, p, second)| {
            let lower = match second {
                Some((y, q)) => AB::And(Box::new(AB::ColEq(x, m)), Box::new(AB::ColEq(y, q))),
                None => AB::ColEq(x, m),
            };
            AQ::Join3 { kinds, ons: [lower, AB::ColEq(x, p)], pred: None }
        }),
        // (UNION is not part of the grammar the parser accepts: the model keeps it, the generator does not emit it)
        3 => (0u8..3, 0u8..5, prop::collection::vec((0u8..6, any::<u16>()), 1..3), any::<bool>(), any::<bool>()).prop_map(|(t, group, aggs, desc, agg_first)| AQ::AggOrdered { t, group, aggs, desc, agg_first }),
        1 => (0u8..3, prop::collection::vec(0u8..5, 1..4), prop::collection::vec(prop::collection::vec(prop::option::weighted(0.85, 0u8..8), 4), 1..4)).prop_map(|(t, cols, rows)| AQ::Insert { t, cols, rows }),
    ]
    .boxed()
}

// ---------------------------------------------------------------------------------------
// structural simplification (after proptest's shrinking)
// ---------------------------------------------------------------------------------------

fn an_variants(a: &AN) -> Vec<AN> {
    match a {
        AN::Col(_) => vec![AN::Lit(1)],
        AN::Lit(i) => if *i != 1 && *i != 0 { vec![AN::Lit(1), AN::Lit(0)] } else { vec![] },
        AN::Neg(x) => {
            let mut v = vec![(**x).clone()];
            v.extend(an_variants(x).into_iter().map(|y| AN::Neg(Box::new(y))));
            v
        }
        AN::Fn1(f, x) => {
            let mut v = vec![(**x).clone()];
            v.extend(an_variants(x).into_iter().map(|y| AN::Fn1(*f, Box::new(y))));
            v
        }
        AN::Len(x) => {
            let mut v = vec![AN::Lit(1)];
            v.extend(at_variants(x).into_iter().map(|y| AN::Len(Box::new(y))));
            v
        }
        AN::Coalesce(x, y) | AN::NullIf(x, y) => {
            let mk = |p: AN, q: AN| if matches!(a, AN::Coalesce(..)) { AN::Coalesce(Box::new(p), Box::new(q)) } else { AN::NullIf(Box::new(p), Box::new(q)) };
            let mut v = vec![(**x).clone(), (**y).clone()];
            v.extend(an_variants(x).into_iter().map(|z| mk(z, (**y).clone())));
            v.extend(an_variants(y).into_iter().map(|z| mk((**x).clone(), z)));
            v
        }
        AN::Ar(o, x, y) => {
            let mut v = vec![(**x).clone(), (**y).clone()];
            v.extend(an_variants(x).into_iter().map(|z| AN::Ar(*o, Box::new(z), y.clone())));
            v.extend(an_variants(y).into_iter().map(|z| AN::Ar(*o, x.clone(), Box::new(z))));
            v
        }
    }
}

fn at_variants(a: &AT) -> Vec<AT> {
    match a {
        AT::Col(_) => vec![AT::Lit(1)],
        AT::Lit(_) => vec![],
        AT::Upper(x) | AT::Lower(x) => {
            let mut v = vec![(**x).clone()];
            let up = matches!(a, AT::Upper(_));
            v.extend(at_variants(x).into_iter().map(|y| if up { AT::Upper(Box::new(y)) } else { AT::Lower(Box::new(y)) }));
            v
        }
        AT::Coalesce(x, y) => {
            let mut v = vec![(**x).clone(), (**y).clone()];
            v.extend(at_variants(x).into_iter().map(|z| AT::Coalesce(Box::new(z), y.clone())));
            v.extend(at_variants(y).into_iter().map(|z| AT::Coalesce(x.clone(), Box::new(z))));
            v
        }
        AT::Cat(x, y) => {
            let mut v = vec![(**x).clone(), (**y).clone()];
            v.extend(at_variants(x).into_iter().map(|z| AT::Cat(Box::new(z), y.clone())));
            v.extend(at_variants(y).into_iter().map(|z| AT::Cat(x.clone(), Box::new(z))));
            v
        }
    }
}

fn ab_variants(a: &AB) -> Vec<AB> {
    let t = || AB::CmpN(0, AN::Lit(1), AN::Lit(1));
    let is_t = |a: &AB| matches!(a, AB::CmpN(0, AN::Lit(1), AN::Lit(1)));
    let mut v = vec![];
    match a {
        AB::And(x, y) | AB::Or(x, y) => {
            v.push((**x).clone());
            v.push((**y).clone());
            let mk = |p: AB, q: AB| if matches!(a, AB::And(..)) { AB::And(Box::new(p), Box::new(q)) } else { AB::Or(Box::new(p), Box::new(q)) };
            v.extend(ab_variants(x).into_iter().map(|z| mk(z, (**y).clone())));
            v.extend(ab_variants(y).into_iter().map(|z| mk((**x).clone(), z)));
        }
        AB::Not(x) => {
            v.push((**x).clone());
            v.extend(ab_variants(x).into_iter().map(|z| AB::Not(Box::new(z))));
        }
        AB::CmpN(o, x, y) => {
            if !is_t(a) {
                v.push(t());
            }
            v.extend(an_variants(x).into_iter().map(|z| AB::CmpN(*o, z, y.clone())));
            v.extend(an_variants(y).into_iter().map(|z| AB::CmpN(*o, x.clone(), z)));
        }
        AB::CmpT(o, x, y) => {
            v.push(t());
            v.extend(at_variants(x).into_iter().map(|z| AB::CmpT(*o, z, y.clone())));
            v.extend(at_variants(y).into_iter().map(|z| AB::CmpT(*o, x.clone(), z)));
        }
        AB::IsNullN(x, n) => {
            v.push(t());
            v.extend(an_variants(x).into_iter().map(|z| AB::IsNullN(z, *n)));
        }
        AB::IsNullT(x, n) => {
            v.push(t());
            v.extend(at_variants(x).into_iter().map(|z| AB::IsNullT(z, *n)));
        }
        AB::Between(x, lo, hi, n) => {
            v.push(t());
            v.extend(an_variants(x).into_iter().map(|z| AB::Between(z, lo.clone(), hi.clone(), *n)));
            v.extend(an_variants(lo).into_iter().map(|z| AB::Between(x.clone(), z, hi.clone(), *n)));
            v.extend(an_variants(hi).into_iter().map(|z| AB::Between(x.clone(), lo.clone(), z, *n)));
        }
        AB::In(x, l, w, n) => {
            v.push(t());
            if l.len() > 1 {
                v.push(AB::In(x.clone(), l[..1].to_vec(), *w, *n));
            }
            if *w {
                v.push(AB::In(x.clone(), l.clone(), false, *n));
            }
            v.extend(an_variants(x).into_iter().map(|z| AB::In(z, l.clone(), *w, *n)));
        }
        AB::Like(x, p, n) => {
            v.push(t());
            v.extend(at_variants(x).into_iter().map(|z| AB::Like(z, *p, *n)));
        }
        AB::BoolCol(_) | AB::ColEq(..) | AB::Sarg(..) => v.push(t()),
    }
    v
}

fn opt_ab_variants(p: &Option<AB>) -> Vec<Option<AB>> {
    match p {
        None => vec![],
        Some(a) => std::iter::once(None).chain(ab_variants(a).into_iter().map(Some)).collect(),
    }
}

pub fn aq_variants(q: &AQ) -> Vec<AQ> {
    let mut v = vec![];
    match q {
        AQ::Select { t, ncols, computed, distinct, pred, order, limit } => {
            let base = |computed: Option<AN>, distinct: bool, pred: Option<AB>, order: Vec<(u8, bool)>, limit: Option<(u8, u8)>, ncols: u8| AQ::Select { t: *t, ncols, computed, distinct, pred, order, limit };
            if computed.is_some() {
                v.push(base(None, *distinct, pred.clone(), order.clone(), *limit, *ncols));
            }
            if *distinct {
                v.push(base(computed.clone(), false, pred.clone(), order.clone(), *limit, *ncols));
            }
            if !order.is_empty() {
                v.push(base(computed.clone(), *distinct, pred.clone(), vec![], *limit, *ncols));
            }
            if limit.is_some() {
                v.push(base(computed.clone(), *distinct, pred.clone(), order.clone(), None, *ncols));
            }
            for p in opt_ab_variants(pred) {
                v.push(base(computed.clone(), *distinct, p, order.clone(), *limit, *ncols));
            }
            if let Some(c) = computed {
                for c2 in an_variants(c) {
                    v.push(base(Some(c2), *distinct, pred.clone(), order.clone(), *limit, *ncols));
                }
            }
        }
        AQ::Join { kind, on, pred } => {
            for p in opt_ab_variants(pred) {
                v.push(AQ::Join { kind: *kind, on: on.clone(), pred: p });
            }
            for o in ab_variants(on) {
                v.push(AQ::Join { kind: *kind, on: o, pred: pred.clone() });
            }
        }
        AQ::Agg { t, group, aggs, pred } => {
            if !group.is_empty() {
                v.push(AQ::Agg { t: *t, group: group[1..].to_vec(), aggs: aggs.clone(), pred: pred.clone() });
            }
            if aggs.len() > 1 {
                for i in 0..aggs.len() {
                    let mut a = aggs.clone();
                    a.remove(i);
                    v.push(AQ::Agg { t: *t, group: group.clone(), aggs: a, pred: pred.clone() });
                }
            }
            for p in opt_ab_variants(pred) {
                v.push(AQ::Agg { t: *t, group: group.clone(), aggs: aggs.clone(), pred: p });
            }
        }
        AQ::Update { t, sets, pred } => {
            for p in opt_ab_variants(pred) {
                v.push(AQ::Update { t: *t, sets: sets.clone(), pred: p });
            }
            if sets.len() > 1 {
                for i in 0..sets.len() {
                    let mut s2 = sets.clone();
                    s2.remove(i);
                    v.push(AQ::Update { t: *t, sets: s2, pred: pred.clone() });
                }
            }
            for (i, (_, val)) in sets.iter().enumerate() {
                for x in an_variants(val) {
                    let mut s2 = sets.clone();
                    s2[i].1 = x;
                    v.push(AQ::Update { t: *t, sets: s2, pred: pred.clone() });
                }
            }
        }
        AQ::Delete { t, pred } => {
            for p in opt_ab_variants(pred) {
                v.push(AQ::Delete { t: *t, pred: p });
            }
        }
        AQ::InsertSelf { t, pred } => {
            for p in opt_ab_variants(pred) {
                v.push(AQ::InsertSelf { t: *t, pred: p });
            }
        }
        AQ::Join3 { kinds, ons, pred } => {
            for p in opt_ab_variants(pred) {
                v.push(AQ::Join3 { kinds: *kinds, ons: ons.clone(), pred: p });
            }
            for j in 0..2 {
                for o in ab_variants(&ons[j]) {
                    let mut o2 = ons.clone();
                    o2[j] = o;
                    v.push(AQ::Join3 { kinds: *kinds, ons: o2, pred: pred.clone() });
                }
                if kinds[j] % 6 != 0 {
                    let mut k2 = *kinds;
                    k2[j] = 0;
                    v.push(AQ::Join3 { kinds: k2, ons: ons.clone(), pred: pred.clone() });
                }
            }
        }
        AQ::Union { cols, preds, all } => {
            for j in 0..2 {
                for p in opt_ab_variants(&preds[j]) {
                    let mut p2 = preds.clone();
                    p2[j] = p;
                    v.push(AQ::Union { cols: *cols, preds: p2, all: *all });
                }
            }
        }
        AQ::AggOrdered { t, group, aggs, desc, agg_first } => {
            if aggs.len() > 1 {
                v.push(AQ::AggOrdered { t: *t, group: *group, aggs: aggs[..1].to_vec(), desc: *desc, agg_first: *agg_first });
            }
            if *desc {
                v.push(AQ::AggOrdered { t: *t, group: *group, aggs: aggs.clone(), desc: false, agg_first: *agg_first });
            }
            if *agg_first {
                v.push(AQ::AggOrdered { t: *t, group: *group, aggs: aggs.clone(), desc: *desc, agg_first: false });
            }
        }
        AQ::Insert { t, cols, rows } => {
            if rows.len() > 1 {
                v.push(AQ::Insert { t: *t, cols: cols.clone(), rows: rows[..1].to_vec() });
            }
            if cols.len() > 1 {
                v.push(AQ::Insert { t: *t, cols: cols[..cols.len() - 1].to_vec(), rows: rows.clone() });
            }
        }
    }
    v
}

pub fn simpler(c: &QCase) -> Vec<QCase> {
    let mut v = vec![];
    if c.queries.len() > 1 {
        for i in 0..c.queries.len() {
            let mut d = c.clone();
            d.queries.remove(i);
            v.push(d);
        }
    }
    for (ti, t) in c.tables.iter().enumerate() {
        for ri in 0..t.rows.len() {
            let mut d = c.clone();
            d.tables[ti].rows.remove(ri);
            v.push(d);
        }
    }
    for (qi, q) in c.queries.iter().enumerate() {
        for q2 in aq_variants(q) {
            let mut d = c.clone();
            d.queries[qi] = q2;
            v.push(d);
        }
    }
    v
}

pub fn run_shard(ctx: &mut ShardCtx) {
    if ctx.shard == 0 {
        ctx.witnesses(&replay);
    }
    let n = ctx.share(ctx.tier.pick(24_000, 1_500_000));
    let excluded: Vec<String> = ctx.excludes.keys().cloned().collect();
    let strat = (prop::collection::vec(gen_table(), 1..4), prop::collection::vec(gen_aq(), 8..9)).prop_map(move |(tables, queries)| QCase { tables, queries, excluded: excluded.clone() });
    ctx.search_with("queries", strat, n, &run_case, Some(&simpler));
}

/// A plain regression case that bypasses the generators: setup statements, one query, the expected rows
/// (cells as SQL literals; compared as a multiset unless `ordered`).
#[derive(Clone, Debug, Serialize, Deserialize)]
pub struct SqlExpect {
    pub setup: Vec<String>,
    pub query: String,
    pub expect: Vec<Vec<String>>,
    #[serde(default)]
    pub ordered: bool,
    #[serde(default)]
    pub clause: String,
}

pub fn run_sql_expect(c: &SqlExpect) -> CaseOut {
    let mut out = CaseOut::pass();
    out.evals = 1;
    let mut db = match Db::create(Cfg { pool: 2, ..Cfg::default() }) {
        Ok(d) => d,
        Err(e) => return CaseOut::fail(Failure::new("create_failed", e)),
    };
    for s in &c.setup {
        if s == "@analyze" {
            if let Err(e) = db.analyze() {
                return CaseOut::fail(Failure::new("setup_failed", format!("ANALYZE: {}", e.text())));
            }
            continue;
        }
        if let Err(e) = db.exec(s) {
            return CaseOut::fail(Failure::new("setup_failed", format!("`{s}`: {}", e.text())));
        }
    }
    let clause = if c.clause.is_empty() { "query_result_mismatch" } else { c.clause.as_str() };
    match db.exec(&c.query) {
        Ok(Out::Rows { rows, .. }) => {
            let mut got: Vec<Vec<String>> = rows.iter().map(|r| r.iter().map(|v| v.sql()).collect()).collect();
            let mut want = c.expect.clone();
            if !c.ordered {
                got.sort();
                want.sort();
            }
            // a "*" cell matches any value
            let same = got.len() == want.len() && got.iter().zip(&want).all(|(g, w)| g.len() == w.len() && g.iter().zip(w).all(|(x, y)| y == "*" || x == y));
            if !same {
                out.failure = Some(Failure::new(clause, format!("`{}`: engine {:?}, expected {:?}", c.query, got, want)));
            }
        }
        Ok(Out::Affected(n)) => {
            let want = vec![vec![n.to_string()]];
            if want != c.expect {
                out.failure = Some(Failure::new(clause, format!("`{}`: engine affected {n}, expected {:?}", c.query, c.expect)));
            }
        }
        Ok(o) => out.failure = Some(Failure::new(clause, format!("`{}`: {o:?}", c.query))),
        Err(e) => out.failure = Some(Failure::new(clause, format!("`{}`: {}", c.query, e.text()))),
    }
    let _ = crate::panics::take();
    out
}

pub fn replay(kind: &str, case: &Value) -> CaseOut {
    match kind {
        "sql_expect" => match from_value::<SqlExpect>(case) {
            Ok(c) => run_sql_expect(&c),
            Err(e) => CaseOut::fail(Failure::new("bad_replay", e)),
        },
        "queries" => match from_value::<QCase>(case) {
            Ok(c) => run_case(&c),
            Err(e) => CaseOut::fail(Failure::new("bad_replay", e)),
        },
        _ => CaseOut::fail(Failure::new("bad_replay", format!("unknown kind {kind}"))),
    }
}
