//! C01 / C02 / C08 — crash properties on top of the crash simulator. DESIGN.md §2/C01, C02, C08.
use crate::crashsim::*;
use crate::dbx::Cfg;
use crate::engine::*;
use crate::workload::*;
use proptest::prelude::*;
use serde_json::Value;

const ASSUME: &[&str] = &[
    "crash model: the on-disk state at a crash is the effect of a prefix of the DBFile mutations (create, write at offset, set_len(0), remove) the engine issued; no torn or reordered writes (process death, not power loss)",
    "a transaction is acknowledged once its commit call / autocommit statement has returned; the single transaction whose commit was in progress at the crash point may be entirely present or entirely absent",
    "the SQL reference model (harness/src/sqlmodel.rs) supplies the acknowledged state; histories whose live run already diverges from the model are abandoned and counted (other properties own that)",
    "the workload's final Database handle is never closed cleanly: recording stops before Drop",
];

pub fn info_c01() -> PropertyInfo {
    PropertyInfo {
        id: "C01",
        level: "fault_enumeration",
        rule: "histories (5-30 steps, 1-2 sessions, DDL, autocommit statements, transactions that commit, roll back or stay open, checkpoints through flush(), small and medium caches) are run once while the I/O tap records every file mutation; then for every crash point k (every prefix of the recorded stream that changes the image; in the quick tier every boundary next to a step end plus every 3rd other one) the image is rebuilt, opened, and read. Oracle: the reopened tables contain at least the rows of the model state produced by the transactions acknowledged before k (or equal the state including the one commit in flight). non-trivial = a (history, k) pair at which at least one table had been committed (recovery has something to lose); distinct = hash(history, k).",
        assumptions: ASSUME,
        budget_s: (420, 3600),
        hang_is_violation: false,
        max_shards: 16,
        run_shard: run_shard_c01,
        replay: replay_c01,
    }
}

pub fn info_c02() -> PropertyInfo {
    PropertyInfo {
        id: "C02",
        level: "fault_enumeration",
        rule: "same recorded histories and crash points as C01, biased to transactions that are still open, rolled back, dropped or failed at the crash point, with caches as small as 24 pages. Oracle: the reopened tables equal the model state of the acknowledged transactions exactly (or that state plus the single in-flight commit, whole): clauses open_txn_write_visible / rolled_back_write_visible / unacknowledged_write_visible. non-trivial = (history, k) with a committed table; distinct = hash(history, k).",
        assumptions: ASSUME,
        budget_s: (420, 3600),
        hang_is_violation: false,
        max_shards: 16,
        run_shard: run_shard_c02,
        replay: replay_c02,
    }
}

pub fn info_c08() -> PropertyInfo {
    PropertyInfo {
        id: "C08",
        level: "fault_enumeration",
        rule: "same recorded histories and crash points as C01/C02; additionally, while each crash image is opened the tap records recovery's own writes and the image is cut again at points inside recovery (nested crash, depth 1; quick: up to 4 points per image, thorough: up to 16) and reopened. Oracle: open succeeds; a fixed usability probe (create/insert/delete/select/drop) succeeds and leaves the other tables unchanged; closing and opening again changes nothing; an interrupted and restarted recovery yields the same contents as an uninterrupted one. non-trivial = (history, k) with a committed table; distinct = hash(history, k).",
        assumptions: ASSUME,
        budget_s: (480, 3600),
        hang_is_violation: false,
        max_shards: 16,
        run_shard: run_shard_c08,
        replay: replay_c08,
    }
}

fn gen_cfg(small: bool) -> BoxedStrategy<Cfg> {
    if small {
        prop_oneof![2 => Just(Cfg { cache: 24, ..Cfg::default() }), 2 => Just(Cfg { cache: 64, ..Cfg::default() }), 1 => Just(Cfg::default())].boxed()
    } else {
        prop_oneof![3 => Just(Cfg::default()), 1 => Just(Cfg { cache: 64, ..Cfg::default() }), 1 => Just(Cfg { page_size: 8192, ..Cfg::default() })].boxed()
    }
}

fn strat(ctx: &ShardCtx, small_cache: bool, nested: u32) -> BoxedStrategy<CrashCase> {
    let excluded: Vec<String> = ctx.excludes.keys().cloned().collect();
    let stride = ctx.tier.pick(3u32, 1u32);
    let mut o = crash_opts(ctx.limit("steps", ctx.tier.pick(16, 30)) as usize);
    o.flush = !ctx.excluded("admin.flush");
    (gen_cfg(small_cache), gen_history(&o)).prop_map(move |(cfg, steps)| CrashCase { cfg, steps, excluded: excluded.clone(), stride, nested, flush_with_open_writer: true }).boxed()
}

/// Long-log shape: one small table and 120-230 single-row autocommit statements without a checkpoint, so that
/// the log grows beyond its first 40 KiB block and forces land on block boundaries.
fn long_log(ctx: &ShardCtx, nested: u32) -> BoxedStrategy<CrashCase> {
    let excluded: Vec<String> = ctx.excludes.keys().cloned().collect();
    let stride = ctx.tier.pick(9u32, 2u32);
    (prop::collection::vec((0u8..12, prop::bool::weighted(0.15)), 120..230), 0u8..3)
        .prop_map(move |(ops, ty)| {
            let mut steps = vec![Step::Auto(AStmt::Create { name: 0, cols: vec![ACol { ty, not_null: false, default: None }, ACol { ty: 3, not_null: false, default: None }], pk: None, uniq: None })];
            for (v, del) in ops {
                if del {
                    steps.push(Step::Auto(AStmt::Delete { t: 0, pred: APred::Cmp { col: 0, op: 0, val: AVal::Pool(v) } }));
                } else {
                    steps.push(Step::Auto(AStmt::Insert { t: 0, rows: vec![vec![AVal::Pool(v), AVal::Pool(v / 2), AVal::Pool(v), AVal::Pool(v), AVal::Pool(v)]], partial: false }));
                }
            }
            CrashCase { cfg: Cfg::default(), steps, excluded: excluded.clone(), stride, nested, flush_with_open_writer: true }
        })
        .boxed()
}

/// Session-across-checkpoint shape: a session writes, somebody checkpoints (its Begin record leaves the log),
/// the session writes more and commits or rolls back, more autocommit work follows.
fn across_checkpoint(ctx: &ShardCtx, nested: u32) -> BoxedStrategy<CrashCase> {
    let excluded: Vec<String> = ctx.excludes.keys().cloned().collect();
    let stride = ctx.tier.pick(3u32, 1u32);
    (prop::collection::vec(0u8..12, 1..4), prop::collection::vec(0u8..12, 1..3), prop::collection::vec(0u8..12, 0..4), prop::bool::weighted(0.75), prop::bool::weighted(0.4), prop::bool::weighted(0.3), prop::collection::vec((0u8..6, 0u8..12), 0..4))
        .prop_map(move |(pre, in1, in2, commit, other_commit_between, second_flush, post)| {
            let row = |v: u8| vec![AVal::Pool(v), AVal::Pool(v / 2), AVal::Pool(v), AVal::Pool(v), AVal::Pool(v)];
            let ins = |v: u8| AStmt::Insert { t: 0, rows: vec![row(v)], partial: false };
            let mut steps = vec![Step::Auto(AStmt::Create { name: 0, cols: vec![ACol { ty: 0, not_null: false, default: None }, ACol { ty: 3, not_null: false, default: None }], pk: None, uniq: None })];
            for v in pre {
                steps.push(Step::Auto(ins(v)));
            }
            steps.push(Step::Begin(0));
            for v in in1 {
                steps.push(Step::Exec(0, ins(v)));
            }
            if other_commit_between {
                steps.push(Step::Auto(ins(11)));
            }
            steps.push(Step::Flush);
            for v in in2 {
                steps.push(Step::Exec(0, ins(v)));
            }
            if second_flush {
                steps.push(Step::Flush);
            }
            steps.push(if commit { Step::Commit(0) } else { Step::Rollback(0) });
            // afterwards the rows the session wrote (checkpointed while it was open) are written again by others:
            // recovery has to redo / undo work on rows whose inserter it only knows from a Commit record
            for (kind, v) in post {
                steps.push(Step::Auto(match kind {
                    0 | 1 => ins(v),
                    2 => AStmt::Delete { t: 0, pred: APred::True },
                    3 => AStmt::Delete { t: 0, pred: APred::Cmp { col: 0, op: 0, val: AVal::Pool(v) } },
                    4 => AStmt::Update { t: 0, col: 0, val: AVal::Pool(v), add: None, pred: APred::True },
                    _ => AStmt::Update { t: 0, col: u16::MAX, val: AVal::Pool(v), add: None, pred: APred::Cmp { col: 0, op: 0, val: AVal::Pool(v) } },
                }));
            }
            CrashCase { cfg: Cfg::default(), steps, excluded: excluded.clone(), stride, nested, flush_with_open_writer: true }
        })
        .boxed()
}

/// Failed-statement-then-checkpoint shape: a statement that fails after it wrote a row, at a varying transaction
/// id, then a checkpoint, then a little more work.
fn failed_then_checkpoint(ctx: &ShardCtx, nested: u32) -> BoxedStrategy<CrashCase> {
    let excluded: Vec<String> = ctx.excludes.keys().cloned().collect();
    // transaction ids: small (every residue mod 8), just beyond 1024, just beyond 8192 (bitmap sizes)
    // (beyond 8192: open finding F-C09-aborts-beyond-8192-forgotten)
    let burn = if ctx.excluded("ids.noncommit_beyond_8192") { prop_oneof![12 => 0u16..9, 3 => 1015u16..1040].boxed() } else { prop_oneof![12 => 0u16..9, 3 => 1015u16..1040, 1 => 8185u16..8200].boxed() };
    (prop::collection::vec(0u8..12, 0..6), burn, 0u8..12, any::<bool>(), prop::collection::vec(0u8..12, 0..3))
        .prop_map(move |(pre, burn, v, in_batch, post)| {
            let row = |v: u8| vec![AVal::Pool(v), AVal::Pool(v / 2), AVal::Pool(v), AVal::Pool(v), AVal::Pool(v)];
            let ins = |v: u8| AStmt::Insert { t: 0, rows: vec![row(v)], partial: false };
            let mut steps = vec![Step::Auto(AStmt::Create { name: 0, cols: vec![ACol { ty: 0, not_null: true, default: None }, ACol { ty: 3, not_null: false, default: None }], pk: None, uniq: None })];
            for p in pre {
                steps.push(Step::Auto(ins(p)));
            }
            if burn > 0 {
                steps.push(Step::Burn(burn));
            }
            let failing = AStmt::Insert { t: 0, rows: vec![row(v), vec![AVal::Null, AVal::Null, AVal::Null, AVal::Null, AVal::Null]], partial: false };
            steps.push(if in_batch { Step::Batch(vec![ins(v), failing]) } else { Step::Auto(failing) });
            steps.push(Step::Flush);
            for p in post {
                steps.push(Step::Auto(ins(p)));
            }
            // (every read-only statement of a burn forces the log: thousands of crash points that differ in nothing)
            CrashCase { cfg: Cfg::default(), steps, excluded: excluded.clone(), stride: if burn > 100 { 499 } else { 1 }, nested, flush_with_open_writer: true }
        })
        .boxed()
}

/// Big-transaction shape: one session whose log records span several 40 KiB log blocks, committed; every crash
/// point of the commit is taken.
fn big_txn(ctx: &ShardCtx, nested: u32) -> BoxedStrategy<CrashCase> {
    let excluded: Vec<String> = ctx.excludes.keys().cloned().collect();
    (prop::collection::vec(0u8..12, 0..3), 150usize..420, any::<bool>(), prop::collection::vec(0u8..12, 0..2))
        .prop_map(move |(pre, n, commit, post)| {
            let row = |v: u8| vec![AVal::Pool(v), AVal::Pool(v / 2), AVal::Pool(v), AVal::Pool(v), AVal::Pool(v)];
            let ins = |v: u8| AStmt::Insert { t: 0, rows: vec![row(v)], partial: false };
            let mut steps = vec![Step::Auto(AStmt::Create { name: 0, cols: vec![ACol { ty: 1, not_null: false, default: None }, ACol { ty: 3, not_null: false, default: None }], pk: None, uniq: None })];
            for p in pre {
                steps.push(Step::Auto(ins(p)));
            }
            steps.push(Step::Begin(0));
            for i in 0..n {
                steps.push(Step::Exec(0, ins((i % 12) as u8)));
            }
            steps.push(if commit { Step::Commit(0) } else { Step::Rollback(0) });
            for p in post {
                steps.push(Step::Auto(ins(p)));
            }
            CrashCase { cfg: Cfg::default(), steps, excluded: excluded.clone(), stride: 1, nested, flush_with_open_writer: true }
        })
        .boxed()
}

/// Open-schema-change shape: a session changes a column's constraints (or its default) and stays open while other
/// transactions on another table commit (which forces its log records to disk); it then commits, or never ends.
/// After every crash point the tables must accept and reject what the acknowledged schema accepts and rejects.
pub fn open_schema_change(ctx: &ShardCtx, nested: u32) -> BoxedStrategy<CrashCase> {
    let excluded: Vec<String> = ctx.excludes.keys().cloned().collect();
    (any::<bool>(), any::<bool>(), prop::collection::vec(0u8..12, 0..3), prop::collection::vec((any::<u16>(), 0u8..4, 0u8..12), 1..3), prop::collection::vec(0u8..12, 1..3), 0u8..3, any::<bool>(), prop::collection::vec(0u8..12, 0..3))
        .prop_map(move |(nn0, nn1, pre, alters, others, end, flush_after, post)| {
            let row = |v: u8| vec![AVal::Pool(v), AVal::Pool(v / 2), AVal::Pool(v), AVal::Pool(v), AVal::Pool(v)];
            let ins = |t: u16, v: u8| AStmt::Insert { t, rows: vec![row(v)], partial: false };
            let mut steps = vec![
                Step::Auto(AStmt::Create { name: 0, cols: vec![ACol { ty: 0, not_null: nn0, default: None }, ACol { ty: 0, not_null: nn1, default: None }], pk: None, uniq: None }),
                Step::Auto(AStmt::Create { name: 1, cols: vec![ACol { ty: 0, not_null: false, default: None }, ACol { ty: 3, not_null: false, default: None }], pk: None, uniq: None }),
            ];
            for v in pre {
                steps.push(Step::Auto(ins(0, v)));
            }
            steps.push(Step::Begin(0));
            for (col, action, val) in alters {
                steps.push(Step::Exec(0, AStmt::AlterCol { t: 0, col, action, val: AVal::Pool(val) }));
            }
            for v in others {
                steps.push(Step::Auto(ins(u16::MAX, v)));
            }
            match end {
                0 => steps.push(Step::Commit(0)),
                _ => {} // still open when the process dies
            }
            if flush_after && end == 0 {
                steps.push(Step::Flush);
            }
            for v in post {
                steps.push(Step::Auto(ins(u16::MAX, v)));
            }
            CrashCase { cfg: Cfg::default(), steps, excluded: excluded.clone(), stride: 1, nested, flush_with_open_writer: true }
        })
        .boxed()
}

/// Loser-with-history shape: a session inserts a row and changes it (and others) several times, another transaction
/// commits meanwhile (so the session's records are on disk), and the process dies before the session ends - or
/// while it rolls back / commits. Recovery has to undo a chain of changes to one row.
fn loser_with_history(ctx: &ShardCtx, nested: u32) -> BoxedStrategy<CrashCase> {
    let excluded: Vec<String> = ctx.excludes.keys().cloned().collect();
    (any::<bool>(), prop::collection::vec(0u8..12, 0..3), any::<bool>(), 0u8..12, prop::collection::vec((0u8..5, 0u8..12), 1..5), prop::collection::vec((0u8..3, 0u8..12), 1..3), 0u8..3, prop::collection::vec(0u8..12, 0..3))
        .prop_map(move |(not_null, pre, checkpoint_first, own, changes, others, end, post)| {
            let row = |v: u8| vec![AVal::Pool(v), AVal::Pool(v / 2), AVal::Pool(v), AVal::Pool(v), AVal::Pool(v)];
            let ins = |v: u8| AStmt::Insert { t: 0, rows: vec![row(v)], partial: false };
            let mut steps = vec![Step::Auto(AStmt::Create { name: 0, cols: vec![ACol { ty: 0, not_null, default: None }, ACol { ty: 0, not_null: false, default: None }], pk: None, uniq: None })];
            for v in pre {
                steps.push(Step::Auto(ins(v)));
            }
            if checkpoint_first {
                steps.push(Step::Flush);
            }
            steps.push(Step::Begin(0));
            steps.push(Step::Exec(0, ins(own)));
            for (kind, v) in changes {
                steps.push(Step::Exec(0, match kind {
                    0 => AStmt::Update { t: 0, col: u16::MAX, val: AVal::Pool(v), add: None, pred: APred::True },
                    1 => AStmt::Update { t: 0, col: 0, val: AVal::Pool(v), add: Some(0), pred: APred::True },
                    2 => AStmt::Update { t: 0, col: u16::MAX, val: AVal::Null, add: None, pred: APred::Cmp { col: 0, op: 0, val: AVal::Pool(own) } },
                    3 => ins(v),
                    _ => AStmt::Delete { t: 0, pred: APred::Cmp { col: 0, op: 0, val: AVal::Pool(v) } },
                }));
            }
            for (kind, v) in others {
                steps.push(Step::Auto(match kind {
                    0 => ins(v),
                    1 => AStmt::Delete { t: 0, pred: APred::True },
                    _ => AStmt::Delete { t: 0, pred: APred::Cmp { col: 0, op: 0, val: AVal::Pool(v) } },
                }));
            }
            match end {
                0 => steps.push(Step::Commit(0)),
                1 => steps.push(Step::Rollback(0)),
                _ => {}
            }
            for v in post {
                steps.push(Step::Auto(ins(v)));
            }
            CrashCase { cfg: Cfg::default(), steps, excluded: excluded.clone(), stride: 1, nested, flush_with_open_writer: true }
        })
        .boxed()
}

fn shard(ctx: &mut ShardCtx, prefix: &'static str, small_cache: bool, nested: u32, quick: u64, thorough: u64, replay: fn(&str, &Value) -> CaseOut) {
    if ctx.shard == 0 {
        ctx.witnesses(&replay);
    }
    let n = ctx.share(ctx.tier.pick(quick, thorough));
    let s = strat(ctx, small_cache, nested);
    ctx.search("crash_history", s, n, &move |c: &CrashCase| for_property(run_crash(c), prefix));
    let nl = ctx.share(ctx.tier.pick(32, 400));
    let s2 = long_log(ctx, nested.min(1));
    ctx.search("crash_history", s2, nl, &move |c: &CrashCase| for_property(run_crash(c), prefix));
    let nf = ctx.share(ctx.tier.pick(320, 6_000));
    let s4 = failed_then_checkpoint(ctx, nested.min(1));
    ctx.search("crash_history", s4, nf, &move |c: &CrashCase| for_property(run_crash(c), prefix));
    let nb = ctx.share(ctx.tier.pick(32, 600));
    let s5 = big_txn(ctx, 0);
    ctx.search("crash_history", s5, nb, &move |c: &CrashCase| for_property(run_crash(c), prefix));
    let nh = ctx.share(ctx.tier.pick(480, 8_000));
    let s7 = loser_with_history(ctx, nested.min(1));
    ctx.search("crash_history", s7, nh, &move |c: &CrashCase| for_property(run_crash(c), prefix));
    let ns = ctx.share(ctx.tier.pick(320, 6_000));
    let s6 = open_schema_change(ctx, nested.min(1));
    ctx.search("crash_history", s6, ns, &move |c: &CrashCase| for_property(run_crash(c), prefix));
    let nc = ctx.share(ctx.tier.pick(320, 6_000));
    let s3 = across_checkpoint(ctx, nested.min(1));
    ctx.search("crash_history", s3, nc, &move |c: &CrashCase| for_property(run_crash(c), prefix));
}

fn replay_with(kind: &str, case: &Value, prefix: &str) -> CaseOut {
    match kind {
        "crash_history" => match from_value::<CrashCase>(case) {
            Ok(c) => for_property(run_crash(&c), prefix),
            Err(e) => CaseOut::fail(Failure::new("bad_replay", e)),
        },
        _ => CaseOut::fail(Failure::new("bad_replay", format!("unknown kind {kind}"))),
    }
}

pub fn run_shard_c01(ctx: &mut ShardCtx) {
    shard(ctx, "c01", false, 0, 2_400, 40_000, replay_c01);
}
pub fn replay_c01(kind: &str, case: &Value) -> CaseOut {
    replay_with(kind, case, "c01")
}
pub fn run_shard_c02(ctx: &mut ShardCtx) {
    shard(ctx, "c02", true, 0, 2_400, 40_000, replay_c02);
}
pub fn replay_c02(kind: &str, case: &Value) -> CaseOut {
    replay_with(kind, case, "c02")
}
pub fn run_shard_c08(ctx: &mut ShardCtx) {
    let nested = ctx.tier.pick(3, 16);
    shard(ctx, "c08", true, nested, 2_400, 40_000, replay_c08);
}
pub fn replay_c08(kind: &str, case: &Value) -> CaseOut {
    replay_with(kind, case, "c08")
}
