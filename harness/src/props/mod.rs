//! Property registry.
use crate::engine::PropertyInfo;

pub mod c01;
pub mod c03;
pub mod c04;
pub mod c05;
pub mod c06;
pub mod c10;
pub mod hist;
pub mod c12;
pub mod c14;
pub mod c16;
pub mod c17;
pub mod c18;
pub mod c19;
pub mod c20;

pub fn registry() -> Vec<PropertyInfo> {
    vec![c01::info_c01(), c01::info_c02(), c03::info(), c04::info(), c05::info(), c06::info(), hist::info_c07(), c01::info_c08(), hist::info_c09(), c10::info(), hist::info_c11(), c12::info(), hist::info_c13(), c14::info(), hist::info_c15(), c16::info(), c17::info(), c18::info(), c19::info(), c20::info()]
}
