//! Property registry.
use crate::engine::PropertyInfo;

pub mod c17;
pub mod c20;

pub fn registry() -> Vec<PropertyInfo> {
    vec![c17::info(), c20::info()]
}
