//! Property registry.
use crate::engine::PropertyInfo;

pub mod c01;
pub mod c03;
pub mod c04;
pub mod c10;
pub mod c17;
pub mod c20;

pub fn registry() -> Vec<PropertyInfo> {
    vec![c01::info_c01(), c01::info_c02(), c03::info(), c04::info(), c01::info_c08(), c10::info(), c17::info(), c20::info()]
}
