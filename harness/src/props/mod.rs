//! Property registry.
use crate::engine::PropertyInfo;

pub mod c20;

pub fn registry() -> Vec<PropertyInfo> {
    vec![c20::info()]
}
