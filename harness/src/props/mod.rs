//! Property registry.
use crate::engine::PropertyInfo;

pub mod c03;
pub mod c04;
pub mod c10;
pub mod c17;
pub mod c20;

pub fn registry() -> Vec<PropertyInfo> {
    vec![c03::info(), c04::info(), c10::info(), c17::info(), c20::info()]
}
