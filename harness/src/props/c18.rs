//! C18 — row versions decode to the right values for every snapshot. DESIGN.md §2/C18.
use crate::engine::*;
use axmosdb::types::bool::Bool;
use axmosdb::types::{Blob, DataType, DataTypeKind, Float32, Float64, Int32, Int64, UInt32, UInt64};
use axmosdb::verif::tuple::{Snap, Tup};
use proptest::prelude::*;
use serde::{Deserialize, Serialize};
use serde_json::Value;
use std::collections::HashMap;

pub fn info() -> PropertyInfo {
    PropertyInfo {
        id: "C18",
        level: "exploration",
        rule: "through the `verif` tuple facade: a schema of 1-3 key columns and 0-12 value columns of all kinds (INT, BIGINT, UINT, BIGUINT, FLOAT, DOUBLE, TEXT incl. empty and long, BOOL), a first row (values NULL-able), a chain of 0-8 updates by 1-5 writers touching any column subset (value <-> NULL, growing / shrinking text), an optional delete, optionally a serialize/reload between steps and a history trim (vacuum) with a horizon; then the row is decoded for a grid of reader snapshots: every prefix of writers committed before the snapshot, the remaining writers active / started later / aborted, the reader being one of the writers or a bystander. Oracle: a list-of-versions model: the reader gets the newest version whose writer committed before its snapshot (or is the reader itself), nothing if no such version exists or if a visible writer deleted the row; every key and value must come back with the same kind, the same NULL flag and the same bits; trimming with horizon h leaves every snapshot with xmin >= h unchanged. non-trivial = a case with at least one update and a reader that must not see the newest physical version, or a delete, or a trim; distinct = hash of the case.",
        assumptions: &[
            "visibility rule of the model: a writer is visible iff it committed before the reader's snapshot (id <= snapshot xmax, not active, not aborted) or is the reader",
            "writers act in increasing id order and a writer only builds on versions of writers that ended before it started or on its own (what the engine's callers do)",
            "values never hold NaN (bitwise comparison of floats)",
        ],
        budget_s: (300, 3600),
        hang_is_violation: false,
        max_shards: 16,
        run_shard,
        replay,
    }
}

#[derive(Clone, Debug, Serialize, Deserialize, Hash, PartialEq)]
pub enum CV {
    Null,
    Bool(bool),
    Int(i32),
    BigInt(i64),
    UInt(u32),
    BigUInt(u64),
    Float(u32),
    Double(u64),
    Text(Vec<u8>),
}

const KINDS: [DataTypeKind; 8] = [DataTypeKind::Int, DataTypeKind::BigInt, DataTypeKind::UInt, DataTypeKind::BigUInt, DataTypeKind::Float, DataTypeKind::Double, DataTypeKind::Blob, DataTypeKind::Bool];

fn cv(kind: u8, raw: u16) -> CV {
    let r = raw as usize;
    match kind % 8 {
        0 => CV::Int([0, 1, -1, i32::MAX, i32::MIN, 255, 256, -256, 65536, 7][r % 10]),
        1 => CV::BigInt([0, 1, -1, i64::MAX, i64::MIN, 1 << 53, (1 << 53) + 1, -(1 << 40), 4294967296, 9][r % 10]),
        2 => CV::UInt([0, 1, u32::MAX, 255, 256, 65535, 65536, 1 << 31, 12345, 3][r % 10]),
        3 => CV::BigUInt([0, 1, u64::MAX, u64::MAX - 1, 1 << 53, (1 << 53) + 1, 1 << 32, 255, 77, 5][r % 10]),
        4 => CV::Float([0.0f32, -0.0, 1.5, -1.5, f32::MAX, f32::MIN_POSITIVE, 16777216.0, 0.1, 3.0, 1e-10][r % 10].to_bits()),
        5 => CV::Double([0.0f64, -0.0, 1.5, -1.5, f64::MAX, f64::MIN_POSITIVE, 9007199254740993.0, 0.1, 3.0, 1e-300][r % 10].to_bits()),
        6 => {
            // lengths around every power of two up to 2^8 (length prefixes are variable-width), and a few around 2^13
            let n = [0usize, 1, 2, 3, 4, 5, 7, 8, 9, 15, 16, 17, 31, 32, 33, 40, 63, 64, 65, 127, 128, 129, 255, 256, 257, 300, 0, 1, 8, 64, 8191, 8192, 8193, 8255, 16384][r % 35];
            CV::Text((0..n).map(|i| b'a' + ((i + r) % 26) as u8).collect())
        }
        _ => CV::Bool(r % 2 == 1),
    }
}

fn dt(v: &CV) -> DataType {
    match v {
        CV::Null => DataType::Null,
        CV::Bool(b) => DataType::Bool(Bool(*b)),
        CV::Int(i) => DataType::Int(Int32(*i)),
        CV::BigInt(i) => DataType::BigInt(Int64(*i)),
        CV::UInt(i) => DataType::UInt(UInt32(*i)),
        CV::BigUInt(i) => DataType::BigUInt(UInt64(*i)),
        CV::Float(b) => DataType::Float(Float32(f32::from_bits(*b))),
        CV::Double(b) => DataType::Double(Float64(f64::from_bits(*b))),
        CV::Text(t) => DataType::Blob(Blob::from_unencoded_slice(t)),
    }
}

fn back(d: &DataType) -> CV {
    match d {
        DataType::Null => CV::Null,
        DataType::Bool(b) => CV::Bool(b.0),
        DataType::Int(i) => CV::Int(i.0),
        DataType::BigInt(i) => CV::BigInt(i.0),
        DataType::UInt(i) => CV::UInt(i.0),
        DataType::BigUInt(i) => CV::BigUInt(i.0),
        DataType::Float(f) => CV::Float(f.0.to_bits()),
        DataType::Double(f) => CV::Double(f.0.to_bits()),
        DataType::Blob(b) => CV::Text(b.data().map(|d| d.to_vec()).unwrap_or_else(|_| b"<undecodable>".to_vec())),
    }
}

#[derive(Clone, Debug, Serialize, Deserialize, Hash)]
pub struct Upd {
    /// index into the writers (monotone over the chain)
    pub writer: u8,
    /// (value column, Some(raw) = value, None = NULL)
    pub changes: Vec<(u8, Option<u16>)>,
}

#[derive(Clone, Debug, Serialize, Deserialize, Hash)]
pub struct TCase {
    pub key_kinds: Vec<u8>,
    pub val_kinds: Vec<u8>,
    pub keys: Vec<u16>,
    pub row0: Vec<Option<u16>>,
    pub updates: Vec<Upd>,
    /// the row is deleted after the updates by writer index (clamped to >= last update's writer)
    pub delete: Option<u8>,
    /// serialize + reload after every step
    pub reload: bool,
    /// trim history with this horizon selector after all steps (index into writer ids, +1 = above all)
    pub vacuum: Option<u8>,
    #[serde(default)]
    pub excluded: Vec<String>,
}

fn show(v: &[CV]) -> String {
    let one = |c: &CV| match c {
        CV::Float(b) => format!("{:?}f", f32::from_bits(*b)),
        CV::Double(b) => format!("{:?}", f64::from_bits(*b)),
        CV::Text(t) if t.len() > 12 => format!("text[{}]", t.len()),
        CV::Text(t) => format!("{:?}", String::from_utf8_lossy(t)),
        CV::Null => "NULL".into(),
        CV::Bool(b) => b.to_string(),
        CV::Int(i) => i.to_string(),
        CV::BigInt(i) => format!("{i}L"),
        CV::UInt(i) => format!("{i}u"),
        CV::BigUInt(i) => format!("{i}uL"),
    };
    format!("({})", v.iter().map(one).collect::<Vec<_>>().join(", "))
}

pub fn run_case(c: &TCase) -> CaseOut {
    let mut out = CaseOut::pass();
    out.evals = 0;
    let before = crate::panics::count();
    let res = std::panic::catch_unwind(std::panic::AssertUnwindSafe(|| interpret(c, &mut out)));
    match res {
        Ok(f) => out.failure = f,
        Err(_) => {
            let recs = crate::panics::take();
            let sig = recs.get(before.min(recs.len().saturating_sub(1))).map(|r| r.signature()).unwrap_or_default();
            out.failure = Some(Failure::new("tuple_panic", sig));
        }
    }
    let _ = crate::panics::take();
    if out.evals == 0 {
        out.evals = 1;
    }
    out
}

fn interpret(c: &TCase, out: &mut CaseOut) -> Option<Failure> {
    let nk = c.key_kinds.len().clamp(1, 3);
    let key_kinds: Vec<u8> = c.key_kinds.iter().take(nk).map(|k| k % 7).collect(); // no BOOL keys
    let val_kinds: Vec<u8> = c.val_kinds.iter().take(12).copied().collect();
    let nv = val_kinds.len();
    let keys: Vec<CV> = (0..nk).map(|i| cv(key_kinds[i], c.keys.get(i).copied().unwrap_or(0))).collect();
    let row0: Vec<CV> = (0..nv).map(|i| c.row0.get(i).copied().flatten().map(|r| cv(val_kinds[i], r)).unwrap_or(CV::Null)).collect();
    // writers: monotone indices -> ids 10, 20, ...
    let mut versions: Vec<(u64, Vec<CV>)> = vec![(10, row0.clone())];
    let mut tags: Vec<String> = vec![];
    let wid = |w: u8| 10 * (w as u64 % 5 + 1);
    let mut last_w = 10u64;
    let mut steps: Vec<String> = vec![format!("insert by {} {}{}", 10, show(&keys), show(&row0))];
    let kinds_k: Vec<DataTypeKind> = key_kinds.iter().map(|k| KINDS[*k as usize % 8]).collect();
    let kinds_v: Vec<DataTypeKind> = val_kinds.iter().map(|k| KINDS[*k as usize % 8]).collect();
    let first: Vec<DataType> = keys.iter().chain(row0.iter()).map(dt).collect();
    let mut tup = match Tup::build(&kinds_k, &kinds_v, first, 10) {
        Ok(t) => t,
        Err(e) => return Some(Failure::new("build_failed", format!("{e}; keys {} values {}", show(&keys), show(&row0)))),
    };
    let fail = |clause: &str, detail: String, tags: &[String], steps: &[String]| Failure::new(clause, format!("{detail}\n  key kinds {:?} value kinds {:?}\n  steps:\n    {}", kinds_k, kinds_v, steps.join("\n    "))).with_tags(tags.to_vec());
    if c.reload {
        tags.push("reload".into());
    }
    if nv > 0 {
        for u in c.updates.iter().take(8) {
            let w = wid(u.writer).max(last_w);
            last_w = w;
            let mut cur = versions.last().unwrap().1.clone();
            let mut modified: HashMap<usize, DataType> = HashMap::new();
            for (col, v) in u.changes.iter().take(nv) {
                let col = *col as usize % nv;
                let nvv = v.map(|r| cv(val_kinds[col], r)).unwrap_or(CV::Null);
                cur[col] = nvv.clone();
                modified.insert(col, dt(&nvv));
            }
            if modified.is_empty() {
                continue;
            }
            steps.push(format!("update by {w}: {:?} -> {}", { let mut k: Vec<&usize> = modified.keys().collect(); k.sort(); k }, show(&cur)));
            if let Err(e) = tup.add_version(&modified, w) {
                return Some(fail("add_version_failed", e, &tags, &steps));
            }
            versions.push((w, cur));
            if c.reload {
                if let Err(e) = tup.reload() {
                    return Some(fail("reload_failed", e, &tags, &steps));
                }
            }
        }
    }
    if versions.len() > 1 {
        tags.push("update".into());
    }
    if versions.len() > 2 {
        tags.push("update.chain>=2".into());
    }
    let deleter: Option<u64> = c.delete.map(|d| wid(d).max(last_w));
    if let Some(d) = deleter {
        steps.push(format!("delete by {d}"));
        if let Err(e) = tup.delete(d) {
            return Some(fail("delete_failed", e, &tags, &steps));
        }
        tags.push("delete".into());
        if c.reload {
            let _ = tup.reload();
        }
    }
    let mut writers: Vec<u64> = versions.iter().map(|v| v.0).chain(deleter).collect();
    writers.sort();
    writers.dedup();
    let top = *writers.last().unwrap();
    // optional history trim
    let horizon: Option<u64> = c.vacuum.map(|h| {
        let i = h as usize % (writers.len() + 1);
        if i == writers.len() { top + 5 } else { writers[i] }
    });
    if let Some(h) = horizon {
        steps.push(format!("vacuum with oldest active = {h}"));
        if let Err(e) = tup.vacuum(h) {
            return Some(fail("vacuum_failed", e, &tags, &steps));
        }
        tags.push("vacuum".into());
    }
    // reader grid: for every prefix length p of writers committed before the snapshot, the rest being
    // (a) active, (b) started after the snapshot, (c) the last one aborted; the reader is a bystander or the
    // first invisible writer (its own writes are visible)
    let full: Vec<CV> = keys.clone();
    for p in 0..=writers.len() {
        for mode in 0..4u8 {
            let visible: Vec<u64> = writers[..p].to_vec();
            let invisible: Vec<u64> = writers[p..].to_vec();
            let (snap, reader_is_writer): (Snap, Option<u64>) = match mode {
                // invisible writers are active at snapshot time
                0 => (Snap { xid: top + 7, xmin: invisible.first().copied().unwrap_or(top + 7), xmax: Some(top + 6), active: invisible.clone(), aborted: vec![] }, None),
                // invisible writers started after the snapshot
                1 => {
                    let xmax = visible.last().copied();
                    // (xmax None means "nothing committed yet", which the engine reads as "everything is visible":
                    // only transaction 0 gets it; an unrelated transaction 2 has committed here instead)
                    (Snap { xid: visible.last().map(|v| v + 3).unwrap_or(3), xmin: visible.last().map(|v| v + 3).unwrap_or(3), xmax: xmax.or(Some(2)), active: vec![], aborted: vec![] }, None)
                }
                // the last invisible writer aborted, the others are active
                2 => {
                    if invisible.is_empty() {
                        continue;
                    }
                    let (ab, act) = invisible.split_last().unwrap();
                    (Snap { xid: top + 7, xmin: invisible[0], xmax: Some(top + 6), active: act.to_vec(), aborted: vec![*ab] }, None)
                }
                // the reader is the first invisible writer: it sees its own versions; later writers are active
                _ => {
                    if invisible.is_empty() {
                        continue;
                    }
                    let me = invisible[0];
                    // "writers act one after the other": the reader can only be a writer if nobody wrote after it
                    if invisible.len() > 1 {
                        continue;
                    }
                    (Snap { xid: me, xmin: me, xmax: visible.last().copied().or(Some(2)), active: vec![], aborted: vec![] }, Some(me))
                }
            };
            if let Some(h) = horizon {
                if snap.xmin < h {
                    continue; // the trim gives no promise to snapshots below the horizon
                }
            }
            let sees = |w: u64| visible.contains(&w) || reader_is_writer == Some(w);
            let want: Option<Vec<CV>> = {
                let newest = versions.iter().rev().find(|(w, _)| sees(*w));
                match (newest, deleter) {
                    (None, _) => None,
                    (Some(_), Some(d)) if sees(d) => None,
                    (Some((_, vals)), _) => Some(full.iter().cloned().chain(vals.iter().cloned()).collect()),
                }
            };
            out.evals += 1;
            let mut t2 = tags.clone();
            let newest_physical_visible = sees(versions.last().unwrap().0);
            if !newest_physical_visible && versions.len() > 1 {
                t2.push("reader.must_see_older_version".into());
            }
            if versions.iter().all(|(w, _)| !sees(*w)) {
                t2.push("reader.sees_nothing".into());
            }
            if reader_is_writer.is_some() {
                t2.push("reader.is_writer".into());
            }
            if mode == 2 {
                t2.push("writer.aborted".into());
            }
            if let Some(x) = t2.iter().find(|x| c.excluded.contains(x)) {
                out.excluded.push(x.clone());
                continue;
            }
            let desc = format!("reader snapshot {{xid {}, xmin {}, xmax {:?}, active {:?}, aborted {:?}}} (writers committed before it: {:?})", snap.xid, snap.xmin, snap.xmax, snap.active, snap.aborted, visible);
            let got = match tup.decode(&snap) {
                Ok(g) => g.map(|r| r.iter().map(back).collect::<Vec<CV>>()),
                Err(e) => return Some(fail("decode_failed", format!("{desc}: {e}"), &t2, &steps)),
            };
            if got != want {
                let clause = match (&got, &want) {
                    (Some(_), None) => "row_visible_to_reader_entitled_to_nothing",
                    (None, Some(_)) => "row_missing_for_entitled_reader",
                    _ => "wrong_version_or_values",
                };
                return Some(fail(clause, format!("{desc}: decoded {}, entitled to {}", got.as_ref().map(|g| show(g)).unwrap_or("nothing".into()), want.as_ref().map(|g| show(g)).unwrap_or("nothing".into())), &t2, &steps));
            }
            if (versions.len() > 1 && !newest_physical_visible) || deleter.is_some() || horizon.is_some() {
                out.nontrivial.push(hash_of(&(c, p, mode)));
            }
        }
    }
    for t in tags {
        out.labels.push(t);
    }
    None
}

fn gen_case() -> BoxedStrategy<TCase> {
    (
        prop::collection::vec(0u8..7, 1..4),
        prop::collection::vec(0u8..8, 0..13),
        prop::collection::vec(any::<u16>(), 3),
        prop::collection::vec(prop::option::weighted(0.8, any::<u16>()), 12),
        prop::collection::vec((0u8..5, prop::collection::vec((any::<u8>(), prop::option::weighted(0.75, any::<u16>())), 1..5)), 0..9),
        prop::option::weighted(0.3, 0u8..5),
        prop::bool::weighted(0.3),
        prop::option::weighted(0.3, any::<u8>()),
    )
        .prop_map(|(key_kinds, val_kinds, keys, row0, ups, delete, reload, vacuum)| {
            let mut w = 0u8;
            let updates = ups
                .into_iter()
                .map(|(dw, changes)| {
                    w = (w + dw % 2).min(4);
                    Upd { writer: w, changes }
                })
                .collect();
            TCase { key_kinds, val_kinds, keys, row0, updates, delete, reload, vacuum, excluded: vec![] }
        })
        .boxed()
}

pub fn simpler(c: &TCase) -> Vec<TCase> {
    let mut v = vec![];
    if c.vacuum.is_some() {
        v.push(TCase { vacuum: None, ..c.clone() });
    }
    if c.delete.is_some() {
        v.push(TCase { delete: None, ..c.clone() });
    }
    if c.reload {
        v.push(TCase { reload: false, ..c.clone() });
    }
    for i in (0..c.updates.len()).rev() {
        let mut d = c.clone();
        d.updates.remove(i);
        v.push(d);
    }
    for i in 0..c.updates.len() {
        if c.updates[i].changes.len() > 1 {
            for j in 0..c.updates[i].changes.len() {
                let mut d = c.clone();
                d.updates[i].changes.remove(j);
                v.push(d);
            }
        }
    }
    if !c.val_kinds.is_empty() {
        for i in (0..c.val_kinds.len()).rev() {
            // dropping a column renumbers the ones after it: only drop the last
            if i == c.val_kinds.len() - 1 {
                let mut d = c.clone();
                d.val_kinds.pop();
                v.push(d);
            }
        }
    }
    if c.key_kinds.len() > 1 {
        let mut d = c.clone();
        d.key_kinds.pop();
        v.push(d);
    }
    v
}

pub fn run_shard(ctx: &mut ShardCtx) {
    if ctx.shard == 0 {
        ctx.witnesses(&replay);
    }
    let excluded: Vec<String> = ctx.excludes.keys().cloned().collect();
    let n = ctx.share(ctx.tier.pick(2_000_000, 40_000_000));
    let strat = gen_case().prop_map(move |mut c| {
        c.excluded = excluded.clone();
        c
    });
    ctx.search_with("tuple", strat, n, &run_case, Some(&simpler));
}

pub fn replay(kind: &str, case: &Value) -> CaseOut {
    match kind {
        "tuple" => match from_value::<TCase>(case) {
            Ok(c) => run_case(&c),
            Err(e) => CaseOut::fail(Failure::new("bad_replay", e)),
        },
        _ => CaseOut::fail(Failure::new("bad_replay", format!("unknown kind {kind}"))),
    }
}
