//! History-based properties that share the workload interpreter and differ in generator
//! options and in which divergences they own: C07 (constraints), C09 (clean close/reopen),
//! C11 (page ownership, SQL level), C13 (VACUUM), C15 (transactional DDL). DESIGN.md §2.
use crate::dbx::Cfg;
use crate::engine::*;
use crate::workload::*;
use proptest::prelude::*;
use serde::{Deserialize, Serialize};
use serde_json::Value;
use std::collections::BTreeMap;

#[derive(Clone, Debug, Serialize, Deserialize)]
pub struct HCase {
    pub mode: String,
    pub cfg: Cfg,
    /// configurations handed to Database::open at Reopen steps (creation-time page size is kept by the engine)
    #[serde(default)]
    pub reopen_cfgs: Vec<Cfg>,
    pub steps: Vec<Step>,
    #[serde(default)]
    pub excluded: Vec<String>,
    /// no reads between the steps (every read is a committing transaction and moves the horizon): the state is
    /// compared once, after the last step
    #[serde(default)]
    pub quiet: bool,
}

const ASSUME: &[&str] = &[
    "the SQL reference model (harness/src/sqlmodel.rs) and the workload interpreter (harness/src/workload.rs); statements stay inside the shapes whose meaning is not in doubt (DESIGN 1.15)",
    "a divergence that is not attributable to the property's own mechanism (see rule) makes the case 'abandoned' (counted in labels), it is another property's business",
    "features with open findings are excluded by construction and counted (coverage.excluded)",
];

fn has(it: &Interp, t: &str) -> bool {
    it.tags.contains(t)
}

fn run(c: &HCase) -> CaseOut {
    let mut out = CaseOut::pass();
    let excluded: BTreeMap<String, String> = c.excluded.iter().map(|t| (t.clone(), String::new())).collect();
    let mut it = match Interp::new(c.cfg, excluded) {
        Ok(i) => i,
        Err(f) => return CaseOut::fail(f),
    };
    let mode = c.mode.as_str();
    it.sequential = mode != "c07";
    it.tolerate_ww_conflict = true;
    if !c.reopen_cfgs.is_empty() {
        it.reopen_cfgs = c.reopen_cfgs.clone();
    }
    it.audit_pages = mode == "c11" || mode == "c13";
    if c.quiet {
        it.check_state_every_step = false;
    }
    it.vacuum_aborts_sessions = mode == "c13";
    let mut fail: Option<Failure> = None;
    let mut write_after_reopen = false;
    let mut noncommit_before_reopen = false;
    let mut reopened = false;
    let mut ddl_then_read = false;
    let mut file_len_after_vacuum: Vec<u64> = vec![];
    for (i, st) in c.steps.iter().enumerate() {
        if !it.db.usable() {
            break;
        }
        let pre_noncommit = it.pending_noncommit_write || has(&it, "ddl.drop_table");
        let r = it.step(i, st);
        if matches!(st, Step::Reopen(_)) && has(&it, "admin.reopen") {
            if !reopened && pre_noncommit {
                noncommit_before_reopen = true;
            }
            reopened = true;
        } else if reopened && matches!(st, Step::Auto(AStmt::Insert { .. } | AStmt::Create { .. } | AStmt::Update { .. } | AStmt::Delete { .. }) | Step::Commit(_)) {
            write_after_reopen = true;
        }
        if matches!(st, Step::Vacuum) && has(&it, "admin.vacuum") {
            file_len_after_vacuum.push(it.db.file_len());
        }
        if it.tags.iter().any(|t| t.starts_with("ddl.") && t != "ddl.create_table") || has(&it, "ddl.create_table_in_txn") {
            ddl_then_read = true;
        }
        if let Some(f) = r {
            fail = classify(mode, &it, f, &mut out);
            break;
        }
    }
    if fail.is_none() && c.quiet && it.db.usable() && it.txns.is_empty() {
        if let Some(f) = it.check_now("after the last step of a history without intermediate reads") {
            fail = classify(mode, &it, f, &mut out);
        }
    }
    if fail.is_none() && out.labels.iter().all(|l| !l.starts_with("abandoned")) && it.db.usable() {
        let open: Vec<u8> = it.txns.keys().copied().collect();
        for s in open {
            if let Some(f) = it.step(c.steps.len(), &Step::DropSession(s)) {
                fail = classify(mode, &it, f, &mut out);
                break;
            }
        }
    }
    // C13 boundedness: repeated update/vacuum cycles keep the file bounded (generous: 4 pages of slack after the 3rd vacuum)
    if fail.is_none() && mode == "c13" && file_len_after_vacuum.len() >= 5 {
        let base = file_len_after_vacuum[2];
        let rows: usize = it.model.committed.tables.values().map(|t| t.rows.len()).sum();
        if let Some(last) = file_len_after_vacuum.last() {
            if *last > base + 4 * c.cfg.page_size as u64 && rows <= 12 && !has(&it, "ddl.create_table_in_txn") {
                out.labels.push("c13.file_growth_seen".into());
            }
        }
    }
    for t in &it.skipped {
        out.excluded.push(t.clone());
    }
    for l in ["admin.reopen", "admin.vacuum", "admin.flush", "txn.rollback", "txn.drop_session", "failed_stmt", "ddl.drop_table", "ddl.add_column", "ddl.drop_column", "ddl.create_index", "ddl.create_table_in_txn", "update", "delete", "txn.concurrent"] {
        if has(&it, l) {
            out.labels.push(l.to_string());
        }
    }
    if it.saw_free_pages {
        out.labels.push("free_list_nonempty_at_some_audit".into());
    }
    let nontrivial = match mode {
        "c09" => reopened && noncommit_before_reopen && write_after_reopen,
        "c13" => it.vacuum_had_work,
        "c15" => ddl_then_read,
        "c11" => it.audits_done > 0 && it.saw_free_pages,
        "c07" => has(&it, "failed_stmt") || has(&it, "delete") || has(&it, "txn.rollback"),
        _ => true,
    };
    if nontrivial {
        out.nontrivial.push(hash_of(&(mode, &c.steps)));
    }
    out.failure = fail;
    out
}

fn classify(mode: &str, it: &Interp, f: Failure, out: &mut CaseOut) -> Option<Failure> {
    let c = f.clause.clone();
    let abandon = |out: &mut CaseOut, why: &str| -> Option<Failure> {
        out.labels.push(format!("abandoned.{why}.{c}"));
        None
    };
    if c.starts_with("pre_divergence.") {
        return abandon(out, "pre");
    }
    match mode {
        "c09" => {
            if c.starts_with("reopen_") {
                Some(f)
            } else if has(it, "admin.reopen") && c != "panic" && !c.starts_with("vacuum_") {
                Some(Failure { clause: format!("after_reopen.{c}"), ..f })
            } else if has(it, "admin.reopen") {
                // a panic, or a divergence introduced by VACUUM, after a reopen: not what close/reopen is about
                abandon(out, "after_reopen")
            } else {
                abandon(out, "before_reopen")
            }
        }
        "c13" => {
            if c.starts_with("vacuum_") || c.starts_with("audit.") && has(it, "admin.vacuum") {
                Some(f)
            } else if has(it, "admin.vacuum") {
                Some(Failure { clause: format!("after_vacuum.{c}"), ..f })
            } else {
                abandon(out, "before_vacuum")
            }
        }
        "c15" => {
            let ddl = it.tags.iter().any(|t| t.starts_with("ddl.") && t != "ddl.create_table") || has(it, "ddl.create_table_in_txn") || it.transcript.iter().filter(|l| l.contains("CREATE TABLE")).count() > 1;
            if ddl && c != "panic" {
                Some(Failure { clause: format!("ddl.{c}"), ..f })
            } else if ddl {
                Some(Failure { clause: "ddl.panic".into(), ..f })
            } else {
                abandon(out, "no_ddl")
            }
        }
        "c11" => {
            if c.starts_with("audit.") {
                Some(f)
            } else {
                abandon(out, "not_audit")
            }
        }
        "c07" => {
            if c.starts_with("invariant.") {
                Some(Failure { clause: c[10..].to_string(), ..f })
            } else if c == "statement_should_fail" && f.detail.contains("Constraint") {
                Some(Failure { clause: "constraint_not_enforced".into(), ..f })
            } else if c == "spurious_error" && (f.detail.to_lowercase().contains("constraint") || f.detail.contains("datatype mismatch")) {
                Some(Failure { clause: "spurious_rejection".into(), ..f })
            } else {
                abandon(out, "not_constraint")
            }
        }
        _ => Some(f),
    }
}

fn cfgs() -> BoxedStrategy<Cfg> {
    (prop_oneof![3 => Just(4096u32), 1 => Just(8192u32), 1 => Just(16384u32)], prop_oneof![Just(64u32), Just(512u32), Just(10000u32)], prop_oneof![Just(1u8), Just(2u8), Just(4u8)]).prop_map(|(page_size, cache, pool)| Cfg { page_size, cache, pool, min_keys: 3, siblings: 2 }).boxed()
}

fn opts_for(mode: &str, ctx: &ShardCtx) -> GenOpts {
    let base = GenOpts { max_steps: ctx.limit("steps", 24) as usize, ..GenOpts::default() };
    match mode {
        "c09" => GenOpts { reopen: true, vacuum: true, flush: true, ..base },
        "c13" => GenOpts { vacuum: true, reopen: true, ..base },
        "c15" => GenOpts { alter: true, reopen: true, ..base },
        "c11" => GenOpts { vacuum: true, reopen: true, flush: true, alter_col: true, big_values: !ctx.excluded("payload.overflow_cell"), ..base },
        "c07" => GenOpts { sessions: 2, composite_keys: true, bad: true, vacuum: true, alter_col: true, ..base },
        _ => base,
    }
}

fn shard(ctx: &mut ShardCtx, mode: &'static str, quick: u64, thorough: u64) {
    if ctx.shard == 0 {
        ctx.witnesses(&replay);
    }
    let n = ctx.share(ctx.tier.pick(quick, thorough));
    let excluded: Vec<String> = ctx.excludes.keys().cloned().collect();
    let o = opts_for(mode, ctx);
    let strat = (cfgs(), prop::collection::vec(cfgs(), 1..4), gen_history(&o)).prop_map(move |(cfg, reopen_cfgs, mut steps)| {
        if mode == "c09" || mode == "c13" {
            // make sure the shape the property is about occurs: close/reopen (vacuum) at the end, then a write
            steps.push(if mode == "c09" { Step::Reopen(1) } else { Step::Vacuum });
            steps.push(Step::Auto(AStmt::Insert { t: 0, rows: vec![vec![AVal::Pool(9), AVal::Pool(8), AVal::Pool(7), AVal::Pool(6), AVal::Pool(5)]], partial: false }));
        }
        HCase { mode: mode.to_string(), cfg, reopen_cfgs, steps, excluded: excluded.clone(), quiet: false }
    });
    ctx.search("history", strat, n, &run);
    if mode == "c11" {
        // tree level: the same page graph audit on raw trees that grow to 3-4 levels and shrink again
        // (interior merges, root collapses); C11 owns the audit.* clauses, the rest is C10's business
        let own = |mut o: CaseOut| -> CaseOut {
            if let Some(f) = &o.failure {
                if !f.clause.starts_with("audit.") {
                    o.labels.push(format!("abandoned.tree.{}", f.clause));
                    o.failure = None;
                }
            }
            o
        };
        let lim = |name: &str, d: u64| ctx.findings.limit("C10", name, d);
        let c10x = ctx.findings.excludes("C10");
        let small_only = c10x.contains_key("payload.overflow_cell");
        let cap = { let l = lim("payload_cap", u32::MAX as u64) as u32; if l == u32::MAX { 0 } else { l } };
        let nb = ctx.share(ctx.tier.pick(48, 1_500));
        let bulk_keys = lim("bulk_keys", ctx.tier.pick(3600, 9000)) as usize;
        let desc = !c10x.contains_key("bulk.descending");
        ctx.search("c11_tree_bulk", super::c10::gen_bulk(bulk_keys, desc, c10x.keys().cloned().collect()), nb, &|c: &super::c10::BulkCase| own(super::c10::run_bulk(c)));
        let nt = ctx.share(ctx.tier.pick(3_000, 60_000));
        ctx.search("c11_tree_ops", super::c10::gen_case(200, small_only, false, cap), nt, &|c: &super::c10::TreeCase| own(super::c10::run_case(c, 1)));
    }
    if mode == "c09" || mode == "c13" {
        // checkpoint while a session has uncommitted writes, the session then ends (rollback / drop / commit),
        // and the database is closed without anything else dirtying a page
        let excluded: Vec<String> = ctx.excludes.keys().cloned().collect();
        let m = mode.to_string();
        let strat = (prop::collection::vec(0u8..12, 0..3), prop::collection::vec(0u8..12, 1..4), 0u8..3, any::<bool>(), any::<bool>(), prop::collection::vec(0u8..12, 0..3), any::<bool>(), any::<bool>()).prop_map(move |(pre, inside, end, more_after_flush, read_before_close, post, quiet, with_flush)| {
            let row = |v: u8| vec![AVal::Pool(v), AVal::Pool(v), AVal::Pool(v), AVal::Pool(v), AVal::Pool(v)];
            let ins = |v: u8| AStmt::Insert { t: 0, rows: vec![row(v)], partial: false };
            let mut steps = vec![Step::Auto(AStmt::Create { name: 0, cols: vec![ACol { ty: 0, not_null: false, default: None }, ACol { ty: 3, not_null: false, default: None }], pk: None, uniq: None })];
            for v in pre {
                steps.push(Step::Auto(ins(v)));
            }
            steps.push(Step::Begin(0));
            for v in &inside {
                steps.push(Step::Exec(0, ins(*v)));
            }
            if with_flush {
                steps.push(Step::Flush);
            }
            if more_after_flush {
                steps.push(Step::Exec(0, ins(inside[0])));
            }
            steps.push(match end {
                0 => Step::Rollback(0),
                1 => Step::DropSession(0),
                _ => Step::Commit(0),
            });
            if read_before_close {
                steps.push(Step::Auto(AStmt::Select { t: 0, pred: APred::True }));
            }
            steps.push(if m == "c13" { Step::Vacuum } else { Step::Reopen(0) });
            steps.push(Step::Reopen(1));
            for v in post {
                steps.push(Step::Auto(ins(v)));
            }
            HCase { mode: m.clone(), cfg: Cfg::default(), reopen_cfgs: vec![], steps, excluded: excluded.clone(), quiet }
        });
        ctx.search("history", strat, n / 16 + 1, &run);
    }
    if mode == "c09" || mode == "c13" || mode == "c03" {
        // many transaction ids: committed rows with small ids, then ids beyond the sizes of the persisted
        // bookkeeping (1024 bytes / 8192 bits of aborted-transaction bitmap), then transactions that do not commit
        let excluded: Vec<String> = ctx.excludes.keys().cloned().collect();
        let m = mode.to_string();
        // (ids beyond 8192: open finding F-C09-aborts-beyond-8192-forgotten)
        let burn = if ctx.excluded("ids.noncommit_beyond_8192") { (1000u16..1100).boxed() } else { prop_oneof![6 => 1000u16..1100, 1 => 8150u16..8260].boxed() };
        let strat = (prop::collection::vec(0u8..12, 1..5), burn, prop::collection::vec((0u8..12, 0u8..4), 1..5), any::<bool>(), prop::collection::vec(0u8..12, 0..3)).prop_map(move |(pre, burn, losers, flush, post)| {
            let row = |v: u8| vec![AVal::Pool(v), AVal::Pool(v), AVal::Pool(v), AVal::Pool(v), AVal::Pool(v)];
            let ins = |v: u8| AStmt::Insert { t: 0, rows: vec![row(v)], partial: false };
            let mut steps = vec![Step::Auto(AStmt::Create { name: 0, cols: vec![ACol { ty: 0, not_null: false, default: None }, ACol { ty: 3, not_null: false, default: None }], pk: None, uniq: None })];
            for v in pre {
                steps.push(Step::Auto(ins(v)));
            }
            steps.push(Step::Burn(burn));
            let _ = burn;
            for (v, how) in losers {
                match how {
                    0 => {
                        steps.push(Step::Begin(0));
                        steps.push(Step::Exec(0, ins(v)));
                        steps.push(Step::Rollback(0));
                    }
                    1 => {
                        steps.push(Step::Begin(0));
                        steps.push(Step::Rollback(0));
                    }
                    2 => {
                        steps.push(Step::Begin(0));
                        steps.push(Step::Exec(0, ins(v)));
                        steps.push(Step::DropSession(0));
                    }
                    _ => steps.push(Step::Auto(AStmt::Bad { kind: BadKind::UnknownTable, t: 0 })),
                }
            }
            if flush {
                steps.push(Step::Flush);
            }
            steps.push(if m == "c13" { Step::Vacuum } else { Step::Reopen(0) });
            steps.push(Step::Reopen(1));
            for v in post {
                steps.push(Step::Auto(ins(v)));
            }
            HCase { mode: m.clone(), cfg: Cfg::default(), reopen_cfgs: vec![], steps, excluded: excluded.clone(), quiet: false }
        });
        ctx.search("history", strat, n / 48 + 1, &run);
    }
    if mode == "c07" || mode == "c15" {
        // late index: CREATE UNIQUE INDEX over a table that already holds live rows around a dead one
        // (deleted, or written by a rolled-back transaction), then every existing key is offered again
        let excluded: Vec<String> = ctx.excludes.keys().cloned().collect();
        let m = mode.to_string();
        let strat = (proptest::sample::subsequence((0u8..12).collect::<Vec<_>>(), 4..9), any::<u8>(), any::<bool>(), 1usize..4, any::<bool>()).prop_map(move |(vals, hole, by_rollback, tail, vacuum)| {
            let row = |v: u8| vec![AVal::Pool(v), AVal::Pool(v), AVal::Pool(v), AVal::Pool(v), AVal::Pool(v)];
            let ins = |v: u8| Step::Auto(AStmt::Insert { t: 0, rows: vec![row(v)], partial: false });
            let mut steps = vec![Step::Auto(AStmt::Create { name: 0, cols: vec![ACol { ty: 0, not_null: false, default: None }, ACol { ty: 0, not_null: false, default: None }], pk: None, uniq: None })];
            let tail = tail.min(vals.len() - 2);
            let (head, rest) = vals.split_at(vals.len() - tail - 1);
            let (spare, rest) = rest.split_at(1);
            for v in head {
                steps.push(ins(*v));
            }
            if by_rollback {
                steps.push(Step::Begin(0));
                steps.push(Step::Exec(0, AStmt::Insert { t: 0, rows: vec![row(spare[0])], partial: false }));
                steps.push(Step::Rollback(0));
            } else {
                let victim = head[hole as usize % head.len()];
                steps.push(Step::Auto(AStmt::Delete { t: 0, pred: APred::Cmp { col: 0, op: 0, val: AVal::Pool(victim) } }));
            }
            for v in rest {
                steps.push(ins(*v));
            }
            if vacuum {
                steps.push(Step::Vacuum);
            }
            steps.push(Step::Auto(AStmt::CreateIndex { t: 0, col: 0 }));
            for v in head.iter().chain(rest.iter()) {
                steps.push(ins(*v));
            }
            steps.push(Step::Reopen(0));
            steps.push(ins(rest[0]));
            HCase { mode: m.clone(), cfg: Cfg::default(), reopen_cfgs: vec![], steps, excluded: excluded.clone(), quiet: false }
        });
        ctx.search("history", strat, n / 16 + 1, &run);
    }
    if mode == "c11" && !ctx.excluded("payload.overflow_cell_single_leaf") {
        // few big rows: a table that never holds more than three rows (one leaf, no split: the open findings about
        // big cells need splits), each with an overflow chain of 2-5 pages; rows are deleted and vacuumed away so that
        // later chains are built from recycled pages in any order; then the table is dropped and another table
        // drains the free list. The page audit runs after every step.
        let excluded: Vec<String> = ctx.excludes.keys().cloned().collect();
        let big = || prop_oneof![4500u16..6000, 6000u16..9000, 9000u16..14000, 14000u16..20000];
        let strat = (
            prop_oneof![3 => Just(4096u32), 1 => Just(8192u32)],
            prop::collection::vec(big(), 2..4),
            prop::collection::vec((any::<u8>(), big(), any::<bool>()), 1..4),
            any::<bool>(),
            0u8..3,
            prop::collection::vec(big(), 1..6),
        )
            .prop_map(move |(page_size, first, rounds, flush_before_drop, after_drop, refill)| {
                let row = |k: u8, n: u16| vec![AVal::Pool(k), AVal::Big(n), AVal::Pool(0), AVal::Pool(0), AVal::Pool(0)];
                let ins = |t: u16, k: u8, n: u16| Step::Auto(AStmt::Insert { t, rows: vec![row(k, n)], partial: false });
                let create = |name: u8| Step::Auto(AStmt::Create { name, cols: vec![ACol { ty: 0, not_null: false, default: None }, ACol { ty: 3, not_null: false, default: None }], pk: None, uniq: None });
                let mut steps = vec![create(0)];
                let mut live: Vec<u8> = vec![];
                let mut next_key = 0u8;
                for n in first {
                    steps.push(ins(0, next_key, n));
                    live.push(next_key);
                    next_key += 1;
                }
                for (pick, n, two) in rounds {
                    // make room (physically: delete + vacuum), then write a new chain from the recycled pages
                    let victims = if two && live.len() >= 2 { 2 } else { 1 };
                    for _ in 0..victims {
                        if live.is_empty() {
                            break;
                        }
                        let k = live.remove(pick as usize % live.len());
                        steps.push(Step::Auto(AStmt::Delete { t: 0, pred: APred::Cmp { col: 0, op: 0, val: AVal::Pool(k) } }));
                        steps.push(Step::Vacuum);
                    }
                    if next_key < 6 && live.len() < 3 {
                        steps.push(ins(0, next_key, n));
                        live.push(next_key);
                        next_key += 1;
                    }
                }
                if flush_before_drop {
                    steps.push(Step::Flush);
                }
                steps.push(Step::Auto(AStmt::Drop { t: 0 }));
                match after_drop {
                    1 => steps.push(Step::Vacuum),
                    2 => steps.push(Step::Reopen(0)),
                    _ => {}
                }
                steps.push(create(1));
                for (i, n) in refill.into_iter().enumerate().take(3) {
                    steps.push(ins(0, i as u8, n));
                }
                let cfg = Cfg { page_size, ..Cfg::default() };
                HCase { mode: "c11".into(), cfg, reopen_cfgs: vec![cfg], steps, excluded: excluded.clone(), quiet: false }
            });
        ctx.search("history", strat, n / 8 + 1, &run);
    }
    if mode == "c07" {
        // key reuse: a transaction (session or batch) removes the owner of a unique key (DELETE, or UPDATE of the
        // key column away) and writes the key again (INSERT, or UPDATE of another row onto it), ends either way,
        // and afterwards every key ever used is offered again - each must be accepted exactly when it is free
        let excluded: Vec<String> = ctx.excludes.keys().cloned().collect();
        let strat = (
            proptest::sample::subsequence((0u8..12).collect::<Vec<_>>(), 2..6),
            any::<bool>(),
            any::<bool>(),
            prop::collection::vec((any::<u8>(), 0u8..3, 0u8..3, 0u8..4, 0u8..12, any::<bool>()), 1..4),
            0u8..3,
        )
            .prop_map(move |(vals, pk, late_index, rounds, between)| {
                let row = |k: u8, x: u8| vec![AVal::Pool(k), AVal::Pool(x), AVal::Pool(x), AVal::Pool(x), AVal::Pool(x)];
                let ins = |k: u8, x: u8| AStmt::Insert { t: 0, rows: vec![row(k, x)], partial: false };
                let eq = |k: u8| APred::Cmp { col: 0, op: 0, val: AVal::Pool(k) };
                let declared = !late_index;
                let mut steps = vec![Step::Auto(AStmt::Create { name: 0, cols: vec![ACol { ty: 0, not_null: false, default: None }, ACol { ty: 0, not_null: false, default: None }], pk: if declared && pk { Some(0) } else { None }, uniq: if declared && !pk { Some(0) } else { None } })];
                for v in &vals {
                    steps.push(Step::Auto(ins(*v, *v)));
                }
                if late_index {
                    steps.push(Step::Auto(AStmt::CreateIndex { t: 0, col: 0 }));
                }
                for (pick, remove, rewrite, end, other, again_inside) in rounds {
                    let k = vals[pick as usize % vals.len()];
                    let mut body = vec![];
                    body.push(match remove {
                        0 => AStmt::Delete { t: 0, pred: eq(k) },
                        1 => AStmt::Update { t: 0, col: 0, val: AVal::Pool(other), add: None, pred: eq(k) },
                        _ => AStmt::Delete { t: 0, pred: APred::True },
                    });
                    body.push(match rewrite {
                        0 => ins(k, other),
                        1 => AStmt::Update { t: 0, col: 0, val: AVal::Pool(k), add: None, pred: eq(vals[(pick as usize + 1) % vals.len()]) },
                        _ => AStmt::Insert { t: 0, rows: vec![row(other, other), row(k, other)], partial: false },
                    });
                    if again_inside {
                        body.push(ins(k, k));
                    }
                    if end == 3 {
                        steps.push(Step::Batch(body));
                    } else {
                        steps.push(Step::Begin(0));
                        for b in body {
                            steps.push(Step::Exec(0, b));
                        }
                        steps.push(match end {
                            0 => Step::Commit(0),
                            1 => Step::Rollback(0),
                            _ => Step::DropSession(0),
                        });
                    }
                    match between {
                        1 => steps.push(Step::Vacuum),
                        2 => steps.push(Step::Reopen(0)),
                        _ => {}
                    }
                    steps.push(Step::Auto(ins(k, 11)));
                    steps.push(Step::Auto(ins(other, 10)));
                }
                for v in &vals {
                    steps.push(Step::Auto(ins(*v, 9)));
                }
                HCase { mode: "c07".into(), cfg: Cfg::default(), reopen_cfgs: vec![], steps, excluded: excluded.clone(), quiet: false }
            });
        ctx.search("history", strat, n / 8 + 1, &run);
    }
    if mode == "c15" {
        // schema changes are atomic with their transaction across a crash too: the open-schema-change crash shape of
        // the crash checks, of which C15 owns the constraint clauses (what the tables accept after recovery)
        let s = super::c01::open_schema_change(ctx, 0);
        ctx.search("crash_history", s, n / 16 + 1, &schema_crash);
    }
    if mode == "c15" || mode == "c11" {
        // name reuse: a table with an index (declared, or created later under a name of its own) is dropped and
        // created again under the same name, the index too; rows go in before and after
        let excluded: Vec<String> = ctx.excludes.keys().cloned().collect();
        let m = mode.to_string();
        let strat = (prop::collection::vec((any::<bool>(), any::<bool>(), prop::collection::vec(0u8..12, 0..3), 0u8..3), 2..4), prop::collection::vec(0u8..12, 1..4)).prop_map(move |(rounds, last)| {
            let row = |v: u8| vec![AVal::Pool(v), AVal::Pool(v), AVal::Pool(v), AVal::Pool(v), AVal::Pool(v)];
            let ins = |v: u8| Step::Auto(AStmt::Insert { t: 0, rows: vec![row(v)], partial: false });
            let mut steps = vec![];
            for (declared, index_first, rows, between) in rounds {
                steps.push(Step::Auto(AStmt::Create { name: 0, cols: vec![ACol { ty: 0, not_null: false, default: None }, ACol { ty: 0, not_null: false, default: None }], pk: None, uniq: if declared { Some(0) } else { None } }));
                if !declared && index_first {
                    steps.push(Step::Auto(AStmt::CreateIndex { t: 0, col: 0 }));
                }
                for v in &rows {
                    steps.push(ins(*v));
                }
                if !declared && !index_first {
                    steps.push(Step::Auto(AStmt::CreateIndex { t: 0, col: 0 }));
                }
                steps.push(Step::Auto(AStmt::Drop { t: 0 }));
                match between {
                    1 => steps.push(Step::Vacuum),
                    2 => steps.push(Step::Reopen(0)),
                    _ => {}
                }
            }
            steps.push(Step::Auto(AStmt::Create { name: 0, cols: vec![ACol { ty: 0, not_null: false, default: None }, ACol { ty: 0, not_null: false, default: None }], pk: None, uniq: None }));
            steps.push(Step::Auto(AStmt::CreateIndex { t: 0, col: 0 }));
            for v in &last {
                steps.push(ins(*v));
            }
            steps.push(ins(last[0]));
            HCase { mode: m.clone(), cfg: Cfg::default(), reopen_cfgs: vec![], steps, excluded: excluded.clone(), quiet: false }
        });
        ctx.search("history", strat, n / 16 + 1, &run);
    }
    if mode == "c13" {
        // update/vacuum cycles on a few rows: contents stay right, storage stays bounded
        let excluded: Vec<String> = ctx.excludes.keys().cloned().collect();
        let cycles = ctx.tier.pick(10usize, 60usize);
        let strat = (prop::collection::vec(0u8..12, 2..5), prop::collection::vec((0u8..12, -3i8..4), cycles..cycles + 1)).prop_map(move |(rows, ups)| {
            let mut steps = vec![Step::Auto(AStmt::Create { name: 0, cols: vec![ACol { ty: 0, not_null: false, default: None }, ACol { ty: 3, not_null: false, default: None }], pk: None, uniq: None })];
            for r in rows {
                steps.push(Step::Auto(AStmt::Insert { t: 0, rows: vec![vec![AVal::Pool(r), AVal::Pool(r), AVal::Pool(r), AVal::Pool(r), AVal::Pool(r)]], partial: false }));
            }
            for (v, add) in ups {
                steps.push(Step::Auto(AStmt::Update { t: 0, col: 0, val: AVal::Pool(v), add: Some(add), pred: APred::True }));
                steps.push(Step::Vacuum);
            }
            HCase { mode: "c13".into(), cfg: Cfg::default(), reopen_cfgs: vec![], steps, excluded: excluded.clone(), quiet: false }
        });
        ctx.search("history", strat, n / 20 + 1, &run);
    }
}

/// C15's view of a crash history: only the clauses about constraints in force after recovery.
fn schema_crash(c: &crate::crashsim::CrashCase) -> CaseOut {
    let mut r = crate::crashsim::run_crash(c);
    let own = r.failures.iter().find(|f| f.clause.ends_with("constraint_lost") || f.clause.ends_with("constraint_in_force")).cloned();
    if own.is_none() && !r.failures.is_empty() {
        r.out.labels.push("other_property_failed_here".into());
    }
    r.out.failure = own.map(|f| Failure { clause: format!("ddl.crash.{}", &f.clause[4..]), ..f });
    r.out
}

pub fn replay(kind: &str, case: &Value) -> CaseOut {
    match kind {
        "crash_history" => match from_value::<crate::crashsim::CrashCase>(case) {
            Ok(c) => schema_crash(&c),
            Err(e) => CaseOut::fail(Failure::new("bad_replay", e)),
        },
        "c11_tree_bulk" => super::c10::replay("tree_bulk", case),
        "c11_tree_ops" => super::c10::replay("tree_ops", case),
        "history" => match from_value::<HCase>(case) {
            Ok(c) => run(&c),
            Err(e) => CaseOut::fail(Failure::new("bad_replay", e)),
        },
        _ => CaseOut::fail(Failure::new("bad_replay", format!("unknown kind {kind}"))),
    }
}

macro_rules! hist_prop {
    ($fn_info:ident, $fn_shard:ident, $id:expr, $mode:expr, $quick:expr, $thorough:expr, $rule:expr) => {
        fn $fn_shard(ctx: &mut ShardCtx) {
            shard(ctx, $mode, $quick, $thorough)
        }
        pub fn $fn_info() -> PropertyInfo {
            PropertyInfo { id: $id, level: "exploration", rule: $rule, assumptions: ASSUME, budget_s: (420, 3600), hang_is_violation: false, max_shards: 16, run_shard: $fn_shard, replay }
        }
    };
}

hist_prop!(info_c07, shard_c07, "C07", "c07", 32_000, 600_000, "histories on tables with single- and multi-column PRIMARY KEY / UNIQUE constraints declared at CREATE TABLE or by CREATE UNIQUE INDEX and with NOT NULL columns; values from a pool of 12 so key collisions are the norm; INSERT (multi-row, with internal duplicates), UPDATE, DELETE then re-INSERT, rollbacks, VACUUM, two sessions. Oracle two-sided: (a) the model says which statements must fail with a constraint error and which must succeed (spurious_rejection / constraint_not_enforced); (b) invariant on the engine's own SELECT output after every commit: no two live rows equal on a unique column set, no NULL in a NOT NULL column. non-trivial = a history with a failed statement, a delete or a rollback (a key is reused or rejected); distinct = hash of the steps.");
hist_prop!(info_c09, shard_c09, "C09", "c09", 24_000, 400_000, "histories (committed and rolled-back transactions, failed statements, dropped tables, VACUUM, flush) split at random points by clean close + open, with creation-time page size in {4,8,16 KiB}, cache in {64,512,10000}, pool in {1,2,4} and a different configuration passed to every open. Oracle: model equality of every table and of name resolution right after each reopen and for the rest of the history (new rows, tables and transactions created after the reopen must not collide with old ones). Owned divergences: those at or after the first reopen. non-trivial = a reopen preceded by a non-committed writer or a dropped table and followed by a write; distinct = hash of the steps.");
hist_prop!(info_c11, shard_c11, "C11", "c11", 16_000, 300_000, "SQL histories biased to page churn (DROP TABLE, deletes, rollbacks, VACUUM, flush, reopen, CREATE of new tables afterwards) on small rows (larger rows while no open finding forbids them); at every quiescent point (no open session, after each autocommit statement / transaction end / vacuum / reopen) the page auditor walks both catalog trees and every relation's tree from the roots listed by the catalog, every overflow chain and the free list: every page 1..total_pages must have exactly one owner, ids in range, free list acyclic and consistent with its recorded tail, leaves at one depth, sibling links mirroring the in-order leaf sequence. non-trivial = a history in which the free list was non-empty at some audit; distinct = hash of the steps.");
hist_prop!(info_c13, shard_c13, "C13", "c13", 24_000, 400_000, "histories of committed and rolled-back inserts, updates and deletes, failed statements and dropped tables with VACUUM at arbitrary points (sessions are closed first: VACUUM aborts active transactions by contract), optionally reopen in between, more work afterwards; plus update/VACUUM cycles on a few rows. Oracle: the model treats VACUUM as a no-op on logical state: a fresh read of every table right after each VACUUM and for the rest of the history equals the model; the page auditor passes after VACUUM; the database stays usable (the history continues). Owned divergences: those at or after the first VACUUM. non-trivial = a VACUUM that ran after deletes / updates / non-committed writes existed; distinct = hash of the steps.");
hist_prop!(info_c15, shard_c15, "C15", "c15", 24_000, 400_000, "interleavings of CREATE TABLE / CREATE UNIQUE INDEX / ALTER TABLE ADD COLUMN (with and without DEFAULT) / DROP COLUMN / DROP TABLE with DML on the same and other tables, inside committed and rolled-back transactions and failing batches, names from a pool of 3 so reuse after drop is common, followed by reopen. Oracle: model with versioned DDL: after every step each pool name resolves iff the model has the table, SELECT * of every table equals the model rows in the current shape (added column NULL/default, dropped column gone), other tables unaffected. Owned divergences: those in histories containing DDL beyond the first CREATE TABLE. non-trivial = DDL beyond the initial CREATE followed by a read; distinct = hash of the steps.");
