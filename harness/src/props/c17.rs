//! C17 — the write-ahead log returns exactly what was appended. DESIGN.md §2/C17.
use crate::engine::*;
use crate::scratch::Scratch;
use axmosdb::verif::wal::{KINDS, RecordView, Wal};
use proptest::prelude::*;
use serde::{Deserialize, Serialize};
use serde_json::Value;

pub fn info() -> PropertyInfo {
    PropertyInfo {
        id: "C17",
        level: "exploration",
        rule: "sequences of Append(kind,tid,undo,redo sizes)/Force/Reopen/Truncate/Read(read_ahead 1..6) on a bare log file through the facade; sizes are boundary-seeking (0,1,7,8,9, M/n +-16 so that n records end exactly at / just before / just after a block boundary, M = per-block maximum, M+1.. must be refused). Oracle: list model of records appended since the last truncation. non-trivial = a sequence with >=2 Force with a block boundary crossed between them, or a Reopen followed by further appends and a Force; distinct = hash of the op list.",
        assumptions: &[
            "LSNs are assigned the way Pager::push_to_log does (last_lsn()+1), through the facade's append()",
            "an in-process Read without a preceding Force may return any prefix of the appended records that covers the forced ones (buffered records are allowed, not required, to be readable)",
            "dropping the log handle counts as a force (WriteAheadLog::drop flushes)",
            "harness build profile: opt-level 2 with overflow-checks and debug-assertions on",
        ],
        budget_s: (240, 2400),
        hang_is_violation: false,
        max_shards: 16,
        run_shard,
        replay,
    }
}

#[derive(Clone, Debug, Serialize, Deserialize, Hash)]
pub enum Size {
    /// exact payload length
    Exact(u32),
    /// total record size = M / n + delta  (n records fill a block)
    Frac { n: u8, delta: i8 },
    /// total record size = M + over  (over > 0 must be refused)
    Max { over: u8 },
}

#[derive(Clone, Debug, Serialize, Deserialize, Hash)]
pub enum WalOp {
    Append { kind: u8, tid: u8, size: Size, undo_pct: u8, ids: bool },
    Force,
    Reopen,
    Truncate,
    Read { ahead: u8 },
}

#[derive(Clone, Debug, Serialize, Deserialize, Hash)]
pub struct WalCase {
    pub ops: Vec<WalOp>,
}

const HEADER: usize = 64; // RecordHeader size; verified against Wal::record_size(0,0) at run time

fn payload_len(size: &Size, m: usize) -> usize {
    let hdr = Wal::record_size(0, 0);
    match size {
        Size::Exact(n) => *n as usize,
        Size::Frac { n, delta } => {
            let total = (m / (*n).max(1) as usize) as i64 + *delta as i64;
            (total - hdr as i64).max(0) as usize
        }
        Size::Max { over } => m + *over as usize - hdr,
    }
}

fn fill(ordinal: usize, len: usize, salt: u8) -> Vec<u8> {
    (0..len).map(|j| (ordinal.wrapping_mul(31).wrapping_add(j.wrapping_mul(7)).wrapping_add(13 + salt as usize)) as u8).collect()
}

fn show(r: &RecordView) -> String {
    format!("lsn={} tid={} kind={:#x} prev={:?} oid={:?} row={:?} undo={}B redo={}B", r.lsn, r.tid, r.kind, r.prev_lsn, r.object_id, r.row_id, r.undo.len(), r.redo.len())
}

pub fn run_case(c: &WalCase) -> CaseOut {
    let mut out = CaseOut::pass();
    let _ = HEADER;
    let sc = Scratch::new();
    let path = sc.path("axmos.log");
    let before = crate::panics::count();
    let res = std::panic::catch_unwind(std::panic::AssertUnwindSafe(|| interpret(c, &path, &mut out)));
    let f = match res {
        Ok(f) => f,
        Err(_) => {
            let recs = crate::panics::take();
            let sig = recs.get(before.min(recs.len().saturating_sub(1))).map(|r| r.signature()).unwrap_or_default();
            Some(Failure::new("wal_panic", sig))
        }
    };
    let _ = crate::panics::take();
    out.failure = f;
    out
}

fn interpret(c: &WalCase, path: &std::path::Path, out: &mut CaseOut) -> Option<Failure> {
    let mut wal = match Wal::create(path) {
        Ok(w) => w,
        Err(e) => return Some(Failure::new("wal_create_failed", e.to_string())),
    };
    let m = wal.max_record_size();
    let block0_cap = m.saturating_sub(64); // block zero has the larger header; only used for labels
    let mut appended: Vec<RecordView> = vec![];
    let mut forced_upto = 0usize;
    let mut bytes_since_trunc = 0usize;
    let mut bytes_at_last_force: Option<usize> = None;
    let mut forces = 0;
    let mut ever_forced = false;
    let mut crossed_between_forces = false;
    let mut reopened = false;
    let mut append_after_reopen = false;
    let mut force_after_reopen_append = false;
    let mut tags: std::collections::BTreeSet<String> = Default::default();
    let mut ordinal = 0usize;

    macro_rules! fail {
        ($clause:expr, $($arg:tt)*) => {{
            if bytes_since_trunc > block0_cap { tags.insert("beyond_block0".into()); }
            return Some(Failure::new($clause, format!($($arg)*)).with_tags(tags.clone()));
        }};
    }

    for (step, op) in c.ops.iter().enumerate() {
        match op {
            WalOp::Append { kind, tid, size, undo_pct, ids } => {
                tags.insert("append".into());
                let plen = payload_len(size, m);
                let undo_len = plen * (*undo_pct as usize % 101) / 100;
                let redo_len = plen - undo_len;
                let total = Wal::record_size(undo_len, redo_len);
                let kind = KINDS[*kind as usize % KINDS.len()];
                let undo = fill(ordinal, undo_len, 0);
                let redo = fill(ordinal, redo_len, 101);
                let (oid, rid) = if *ids { (Some(ordinal as u64 + 7), Some(ordinal as u64 * 3 + 1)) } else { (None, None) };
                let prev = appended.iter().rev().find(|r| r.tid == *tid as u64).map(|r| r.lsn);
                let r = wal.append(kind, *tid as u64, prev, oid, rid, &undo, &redo);
                if total > m {
                    tags.insert("oversize".into());
                    match r {
                        Err(_) => {}
                        Ok(lsn) => fail!("oversize_append_accepted", "step {step}: record of {total} bytes (max {m}) accepted with lsn {lsn}"),
                    }
                    out.labels.push("oversize_refused".into());
                    continue;
                }
                // The blocks accept slightly less than the advertised maximum (the block header is
                // subtracted twice in available_space): sizes within two headers of the maximum may
                // be refused with an error. A refused record is simply not part of the log.
                if r.is_err() && total + 128 > m {
                    out.labels.push("near_max_refused".into());
                    continue;
                }
                match r {
                    Ok(lsn) => {
                        if let Some(last) = appended.last() {
                            if lsn <= last.lsn {
                                fail!("lsn_not_increasing", "step {step}: append returned lsn {lsn} after lsn {}", last.lsn);
                            }
                        }
                        appended.push(RecordView { lsn, tid: *tid as u64, prev_lsn: prev, object_id: oid, row_id: rid, kind, undo, redo });
                        bytes_since_trunc += total;
                        ordinal += 1;
                        if reopened {
                            append_after_reopen = true;
                        }
                    }
                    Err(e) => fail!("append_failed", "step {step}: append of {total} bytes (max {m}) failed: {e}"),
                }
            }
            WalOp::Force => {
                tags.insert("force".into());
                if let Err(e) = wal.force() {
                    fail!("force_failed", "step {step}: {e}");
                }
                forced_upto = appended.len();
                forces += 1;
                ever_forced = true;
                if let Some(b) = bytes_at_last_force {
                    if bytes_since_trunc / m.max(1) > b / m.max(1) || (b <= block0_cap && bytes_since_trunc > block0_cap) {
                        crossed_between_forces = true;
                        tags.insert("force_after_boundary".into());
                    }
                }
                bytes_at_last_force = Some(bytes_since_trunc);
                if append_after_reopen {
                    force_after_reopen_append = true;
                }
                if let Some(f) = check_read(&mut wal, 2, &appended, forced_upto, true, step, "after Force") {
                    fail!(&f.0, "{}", f.1);
                }
            }
            WalOp::Reopen => {
                tags.insert("reopen".into());
                drop(wal);
                wal = match Wal::open(path) {
                    Ok(w) => w,
                    Err(e) => fail!("reopen_failed", "step {step}: {e}"),
                };
                forced_upto = appended.len();
                reopened = true;
                ever_forced = true;
                if bytes_at_last_force.map(|b| b < bytes_since_trunc).unwrap_or(false) && bytes_since_trunc > block0_cap {
                    tags.insert("force_after_boundary".into());
                }
                bytes_at_last_force = Some(bytes_since_trunc);
                if let Some(f) = check_read(&mut wal, 3, &appended, forced_upto, true, step, "after Reopen") {
                    fail!(&f.0, "{}", f.1);
                }
            }
            WalOp::Truncate => {
                tags.insert("truncate".into());
                if let Err(e) = wal.truncate() {
                    fail!("truncate_failed", "step {step}: {e}");
                }
                appended.clear();
                forced_upto = 0;
                bytes_since_trunc = 0;
                bytes_at_last_force = None;
                // the pager always forces right after truncating (Pager::flush); do the same so the
                // on-disk header reflects the truncation before anything reads the file again
                if let Err(e) = wal.force() {
                    fail!("force_failed", "step {step}: force after truncate: {e}");
                }
                ever_forced = true;
                if let Some(f) = check_read(&mut wal, 1, &appended, 0, true, step, "after Truncate") {
                    fail!(&f.0, "{}", f.1);
                }
            }
            WalOp::Read { .. } if !ever_forced => {
                // Nothing was ever written to the file: the reader has no header to read. No caller
                // reads a log that was never forced (analysis runs on files left by a previous handle).
                out.labels.push("read_before_first_force_skipped".into());
            }
            WalOp::Read { ahead } => {
                let exact = forced_upto == appended.len();
                if let Some(f) = check_read(&mut wal, (*ahead as usize % 6) + 1, &appended, forced_upto, exact, step, "Read") {
                    fail!(&f.0, "{}", f.1);
                }
            }
        }
    }
    // final: close and reopen, everything appended must be there
    drop(wal);
    match Wal::open(path) {
        Ok(mut w) => {
            if bytes_at_last_force.map(|b| b < bytes_since_trunc).unwrap_or(false) && bytes_since_trunc > block0_cap {
                tags.insert("force_after_boundary".into());
            }
            tags.insert("reopen".into());
            if let Some(f) = check_read(&mut w, 4, &appended, appended.len(), true, c.ops.len(), "after final close/reopen") {
                fail!(&f.0, "{}", f.1);
            }
        }
        Err(e) => fail!("reopen_failed", "final reopen: {e}"),
    }
    if bytes_since_trunc > block0_cap {
        out.labels.push("beyond_block0".into());
    }
    if crossed_between_forces {
        out.labels.push("boundary_between_forces".into());
    }
    if force_after_reopen_append {
        out.labels.push("reopen_append_force".into());
    }
    if (forces >= 2 && crossed_between_forces) || force_after_reopen_append {
        out.nontrivial.push(hash_of(c));
    }
    None
}

/// Reads the log and compares with the model. `exact`: result must equal expected[..];
/// otherwise any prefix of `expected` of length >= forced_upto is accepted.
fn check_read(wal: &mut Wal, ahead: usize, expected: &[RecordView], forced_upto: usize, exact: bool, step: usize, at: &str) -> Option<(String, String)> {
    let got = match wal.read_all(ahead) {
        Ok(g) => g,
        Err(e) => return Some(("read_failed".into(), format!("step {step} {at}: reader error: {e}"))),
    };
    let min_len = if exact { expected.len() } else { forced_upto };
    for (i, g) in got.iter().enumerate() {
        match expected.get(i) {
            None => {
                return Some(("read_phantom_record".into(), format!("step {step} {at} (read_ahead {ahead}): {} records appended, reader yields {}; extra record #{i}: {}", expected.len(), got.len(), show(g))));
            }
            Some(e) if e != g => {
                return Some(("read_wrong_record".into(), format!("step {step} {at} (read_ahead {ahead}): record #{i} expected [{}] got [{}]{}", show(e), show(g), if e.undo != g.undo || e.redo != g.redo { " (payload bytes differ)" } else { "" })));
            }
            _ => {}
        }
        if i > 0 && got[i - 1].lsn >= g.lsn {
            return Some(("lsn_not_increasing".into(), format!("step {step} {at}: lsn {} follows {}", g.lsn, got[i - 1].lsn)));
        }
    }
    if got.len() < min_len {
        return Some(("read_missing_records".into(), format!("step {step} {at} (read_ahead {ahead}): {} records must be readable, reader yields {} (first missing: [{}])", min_len, got.len(), show(&expected[got.len()]))));
    }
    None
}

// ---------------------------------------------------------------------------------------------

fn gen_size() -> BoxedStrategy<Size> {
    prop_oneof![
        6 => prop_oneof![Just(0u32), Just(1), Just(7), Just(8), Just(9), 0u32..200].prop_map(Size::Exact),
        3 => (200u32..6000).prop_map(Size::Exact),
        4 => (1u8..12, -16i8..=16).prop_map(|(n, delta)| Size::Frac { n, delta }),
        1 => (0u8..=0).prop_map(|over| Size::Max { over }),
        1 => (1u8..40).prop_map(|over| Size::Max { over }),
    ]
    .boxed()
}

fn gen_op() -> BoxedStrategy<WalOp> {
    prop_oneof![
        14 => (0u8..10, 0u8..4, gen_size(), prop_oneof![Just(0u8), Just(100u8), 0u8..=100], any::<bool>()).prop_map(|(kind, tid, size, undo_pct, ids)| WalOp::Append { kind, tid, size, undo_pct, ids }),
        3 => Just(WalOp::Force),
        2 => Just(WalOp::Reopen),
        1 => Just(WalOp::Truncate),
        2 => (0u8..6).prop_map(|ahead| WalOp::Read { ahead }),
    ]
    .boxed()
}

fn gen_case(max_ops: usize) -> BoxedStrategy<WalCase> {
    prop::collection::vec(gen_op(), 1..max_ops).prop_map(|ops| WalCase { ops }).boxed()
}

pub fn run_shard(ctx: &mut ShardCtx) {
    if ctx.shard == 0 {
        ctx.witnesses(&replay);
    }
    let n = ctx.share(ctx.tier.pick(40_000, 1_500_000));
    ctx.search("wal_ops", gen_case(60), n, &run_case);
}

pub fn replay(kind: &str, case: &Value) -> CaseOut {
    match kind {
        "wal_ops" => match from_value::<WalCase>(case) {
            Ok(c) => run_case(&c),
            Err(e) => CaseOut::fail(Failure::new("bad_replay", e)),
        },
        _ => CaseOut::fail(Failure::new("bad_replay", format!("unknown kind {kind}"))),
    }
}
