//! C16 — any statement yields a result or an error: never a panic, never a hang. DESIGN.md §2/C16.
use crate::dbx::{Cfg, Db, Out};
use crate::engine::*;
use crate::sqlmodel::Val;
use proptest::prelude::*;
use serde::{Deserialize, Serialize};
use serde_json::Value;

pub fn info() -> PropertyInfo {
    PropertyInfo {
        id: "C16",
        level: "exploration",
        rule: "on a small fixed database (two tables with INT/BIGINT/DOUBLE/TEXT/BOOL columns, NULLs, one unique index, 6 rows each) sequences of 6-14 inputs are executed through Database::execute or inside a session (BEGIN .. COMMIT/ROLLBACK at generated points): (a) random byte strings (lossy UTF-8) and random printable strings, (b) token soups from the lexer's vocabulary (keywords, operators, literals, identifiers of the schema, quotes, comment markers, escapes), (c) valid statements mutated token-wise (delete / duplicate / swap / replace / truncate / append), (d) deep nesting (parentheses, NOT chains, long operator chains, long IN lists) up to depth 400, (e) well-formed statements with semantic traps: division and modulo by zero, integer overflow, wrong operand types, unknown names, ambiguous names, aggregates in WHERE, GROUP BY/HAVING/CASE/sub-queries/UNION/scalar functions with NULL, wrong-arity and wrong-type arguments, LIKE with NULL / escapes / long patterns, oversized text values (up to 200 KiB), inserts with too few / too many / wrongly typed values, unique-key violations, DDL on existing / missing objects. Oracle: every call returns rows, a count, a DDL result or an error before the watchdog limit (a hang is a violation); no call panics (a worker that dies is a violation, attributed by panic signature); after every error a probe SELECT works in the same session / database and every table holds exactly the rows it held before the failing statement. non-trivial = a sequence in which at least one statement failed with an error and a later statement succeeded; distinct = hash of the sequence.",
        assumptions: &[
            "only the public Database / Session API is used; the watchdog limit (VERIF_HANG_S, default 20 s) stands for 'bounded time'",
            "a statement that succeeds may change data (a soup can be a valid DELETE): state is compared only across failed statements",
            "known panics are attributed to their finding by panic signature and the search goes on with other inputs (DESIGN 1.9)",
        ],
        budget_s: (420, 3600),
        hang_is_violation: true,
        max_shards: 16,
        run_shard,
        replay,
    }
}

const VOCAB: &[&str] = &[
    "SELECT", "FROM", "WHERE", "INSERT", "INTO", "VALUES", "UPDATE", "SET", "DELETE", "CREATE", "TABLE", "DROP", "INDEX", "UNIQUE", "ON", "AND", "OR", "NOT", "NULL", "IS", "IN", "BETWEEN", "LIKE", "ORDER", "BY", "GROUP", "HAVING", "LIMIT", "OFFSET", "JOIN", "LEFT", "RIGHT", "FULL", "INNER", "CROSS", "AS", "DISTINCT", "CASE", "WHEN", "THEN", "ELSE", "END", "UNION", "ALL", "EXISTS", "ASC", "DESC",
    "BEGIN", "COMMIT", "ROLLBACK", "ALTER", "ADD", "COLUMN", "PRIMARY", "KEY", "DEFAULT", "INT", "BIGINT", "DOUBLE", "TEXT", "BOOL", "TRUE", "FALSE", "COUNT", "SUM", "MIN", "MAX", "AVG", "ABS", "LENGTH", "UPPER", "LOWER", "COALESCE", "NULLIF", "ROUND", "CAST", "ANALYZE", "VACUUM", "EXPLAIN",
    "(", ")", ",", ";", ".", "*", "+", "-", "/", "%", "=", "<>", "!=", "<", "<=", ">", ">=", "||", "'", "''", "\"", "--", "/*", "*/", "\\", "\n", "\t", " ",
    "t", "u", "a", "b", "c", "d", "e", "k", "t.a", "u.k", "nosuch", "x", "0", "1", "-1", "2147483647", "2147483648", "9223372036854775807", "9223372036854775808", "1.5", ".5", "5.", "1e9", "0x10", "'abc'", "'a%'", "'_b'", "'it''s'", "'\\'", "'%\\'", "''", "NULL", "?", "$1", "@", "#", "`", "\u{e9}", "\u{1F600}", "\0",
];

const BASES: &[&str] = &[
    "SELECT a, b FROM t WHERE a > 1 AND c LIKE 'a%' ORDER BY a DESC LIMIT 3 OFFSET 1",
    "SELECT t.a, u.k FROM t JOIN u ON t.a = u.k WHERE u.e IS NOT NULL",
    "SELECT c, COUNT(*), SUM(a) FROM t GROUP BY c",
    "INSERT INTO t VALUES (100, 5, 'x', 1.5, TRUE)",
    "INSERT INTO t (a, c) VALUES (101, 'y'), (102, 'z')",
    "UPDATE t SET b = b + 1, c = 'w' WHERE a BETWEEN 1 AND 3",
    "DELETE FROM t WHERE a IN (1, 2) OR c IS NULL",
    "CREATE TABLE z (p INT, q TEXT)",
    "CREATE UNIQUE INDEX zi ON t (b)",
    "DROP TABLE u",
    "SELECT DISTINCT c FROM t WHERE NOT a = 1 OR d <= 2.5",
    "SELECT a FROM t WHERE a = (1 + 2) * 3 - -4 / 2 % 5",
];

#[derive(Clone, Debug, Serialize, Deserialize, Hash)]
pub enum Trap {
    DivZero(u8),
    Overflow(u8),
    WrongTypes(u8),
    UnknownName(u8),
    Ambiguous,
    AggInWhere,
    Having,
    Case(u8),
    Subquery(u8),
    Union,
    Func(u8, u8),
    LikeOdd(u8),
    BigText(u16),
    InsertShape(u8),
    UniqueViolation,
    DdlExisting(u8),
    LongInList(u16),
    OrderByOdd(u8),
    LimitOdd(u8),
    /// join kind x ON condition x tail (every physical join operator and its outer-row bookkeeping)
    Join(u8, u8, u8),
    /// INSERT ... SELECT, also from the table being written
    InsertSelect(u8),
}

#[derive(Clone, Debug, Serialize, Deserialize, Hash)]
pub enum Inp {
    Bytes(Vec<u8>),
    Printable(String),
    Soup(Vec<u16>),
    Mutated { base: u8, muts: Vec<(u8, u16, u16)> },
    Nest { kind: u8, depth: u16 },
    Trap(Trap),
}

#[derive(Clone, Debug, Serialize, Deserialize, Hash)]
pub enum St {
    /// the same input many times (counters that only overflow after hundreds of statements)
    Repeat(Inp, u16),
    Auto(Inp),
    Begin,
    Sess(Inp),
    Commit,
    Rollback,
}

#[derive(Clone, Debug, Serialize, Deserialize, Hash)]
pub struct RCase {
    pub steps: Vec<St>,
    pub pool: u8,
    #[serde(default)]
    pub cache: u8,
    #[serde(default)]
    pub excluded: Vec<String>,
}

fn trap_sql(t: &Trap) -> (String, &'static str) {
    match t {
        Trap::DivZero(k) => (["SELECT a / 0 FROM t", "SELECT a % 0 FROM t", "SELECT a FROM t WHERE b / (a - a) > 1", "UPDATE t SET b = b / 0", "SELECT d / 0 FROM t", "SELECT 1 / 0", "SELECT a / 0.0 FROM t", "DELETE FROM t WHERE a % (b - b) = 0"][*k as usize % 8].to_string(), "trap.div_zero"),
        Trap::Overflow(k) => (["SELECT a + 2147483647 FROM t", "SELECT b * 9223372036854775807 FROM t", "SELECT a * a * a * a * a * a * a * a * a * a * 1000000 FROM t", "UPDATE t SET a = a + 2147483647", "SELECT - b - 9223372036854775807 FROM t", "INSERT INTO t VALUES (2147483648, 1, 'o', 1.0, TRUE)", "SELECT 2147483647 + 1", "SELECT SUM(b) * 9223372036854775807 FROM t", "SELECT a FROM t WHERE a = - - 2147483648", "SELECT - (- 2147483647 - 1) FROM t", "SELECT - (- 9223372036854775807 - 1) FROM t", "UPDATE t SET a = - (a - 2147483647 - 2) WHERE a = 1"][*k as usize % 12].to_string(), "trap.overflow"),
        Trap::WrongTypes(k) => (["SELECT a + c FROM t", "SELECT c * 2 FROM t", "SELECT a FROM t WHERE c > 5", "SELECT a FROM t WHERE a LIKE 'x'", "SELECT - c FROM t", "SELECT a || b FROM t", "SELECT a FROM t WHERE e + 1 = 2", "UPDATE t SET a = 'text'", "SELECT a FROM t WHERE NOT c", "SELECT a FROM t WHERE a AND b", "SELECT SUM(c) FROM t", "SELECT AVG(e) FROM t"][*k as usize % 12].to_string(), "trap.wrong_types"),
        Trap::UnknownName(k) => (["SELECT nosuch FROM t", "SELECT a FROM nosuch", "SELECT t.nosuch FROM t", "SELECT x.a FROM t", "INSERT INTO nosuch VALUES (1)", "UPDATE t SET nosuch = 1", "DELETE FROM nosuch", "DROP TABLE nosuch", "SELECT a FROM t ORDER BY nosuch", "SELECT a FROM t GROUP BY nosuch", "SELECT NOSUCHFN(a) FROM t", "CREATE UNIQUE INDEX ni ON nosuch (a)", "CREATE UNIQUE INDEX ni ON t (nosuch)"][*k as usize % 13].to_string(), "trap.unknown_name"),
        Trap::Ambiguous => ("SELECT a FROM t JOIN t ON a = a".to_string(), "trap.ambiguous"),
        Trap::AggInWhere => ("SELECT a FROM t WHERE COUNT(*) > 1".to_string(), "trap.agg_in_where"),
        Trap::Having => ("SELECT c, COUNT(*) FROM t GROUP BY c HAVING COUNT(*) > 1".to_string(), "trap.having"),
        Trap::Case(k) => (["SELECT CASE WHEN a > 1 THEN 'x' ELSE 'y' END FROM t", "SELECT CASE a WHEN 1 THEN 2 END FROM t", "SELECT a FROM t WHERE CASE WHEN c IS NULL THEN TRUE ELSE FALSE END", "SELECT CASE WHEN a / 0 > 1 THEN 1 END FROM t"][*k as usize % 4].to_string(), "trap.case"),
        Trap::Subquery(k) => (["SELECT a FROM t WHERE a IN (SELECT k FROM u)", "SELECT a FROM t WHERE EXISTS (SELECT 1 FROM u)", "SELECT (SELECT MAX(k) FROM u) FROM t", "SELECT a FROM (SELECT a FROM t) AS s", "SELECT a FROM t WHERE a = (SELECT k FROM u)", "DELETE FROM t WHERE a IN (SELECT k FROM u)"][*k as usize % 6].to_string(), "trap.subquery"),
        Trap::Union => ("SELECT a FROM t UNION SELECT k FROM u".to_string(), "trap.union"),
        Trap::Func(f, a) => {
            let fname = ["ABS", "LENGTH", "UPPER", "LOWER", "COALESCE", "NULLIF", "ROUND", "CEIL", "FLOOR", "SQRT", "LTRIM", "RTRIM", "CONCAT", "CAST", "COUNT", "SUM"][*f as usize % 16];
            let args = ["", "a", "c", "NULL", "a, c", "c, a", "a, NULL", "d", "e", "-1", "a, b, c, d", "'x'", "*", "a / 0", "c, 'x', NULL"][*a as usize % 15];
            (format!("SELECT {fname}({args}) FROM t"), "trap.function")
        }
        Trap::LikeOdd(k) => (["SELECT a FROM t WHERE c LIKE NULL", "SELECT a FROM t WHERE NULL LIKE 'a'", "SELECT a FROM t WHERE c LIKE 'a\\'", "SELECT a FROM t WHERE c LIKE '%\\'", "SELECT a FROM t WHERE c LIKE '\\'", "SELECT a FROM t WHERE c LIKE ''", "SELECT a FROM t WHERE c LIKE '%%%%%%%%%%%%%%%%%%%%%%%%%%%%%%%%%%%%%%%%%%%%%%%%%%%%%%%%%%%%%%%%%%%%%%%%%%%%%%b'", "SELECT a FROM t WHERE c LIKE c", "SELECT a FROM t WHERE c LIKE a", "SELECT a FROM t WHERE c NOT LIKE '\\%'", "SELECT a FROM t WHERE c LIKE '_\\_'", "SELECT a FROM t WHERE c LIKE 'a' || NULL"][*k as usize % 12].to_string(), "trap.like"),
        Trap::BigText(n) => {
            let n = [10usize, 1000, 3900, 4096, 5000, 20_000, 70_000, 200_000][*n as usize % 8];
            (format!("INSERT INTO t VALUES (200, 1, '{}', 1.0, TRUE)", "q".repeat(n)), "trap.big_text")
        }
        Trap::InsertShape(k) => (["INSERT INTO t VALUES (1)", "INSERT INTO t VALUES (1, 2, 'x', 1.0, TRUE, 9)", "INSERT INTO t VALUES ('x', 'y', 3, 'z', 5)", "INSERT INTO t (a, a) VALUES (1, 2)", "INSERT INTO t (nosuch) VALUES (1)", "INSERT INTO t VALUES (NULL, NULL, NULL, NULL, NULL)", "INSERT INTO t VALUES (1, 2, 'x', 1.0, TRUE), (2)", "INSERT INTO t VALUES ()", "INSERT INTO t (a) VALUES (1, 2)", "INSERT INTO u VALUES (NULL, 'n')"][*k as usize % 10].to_string(), "trap.insert_shape"),
        Trap::UniqueViolation => ("INSERT INTO u VALUES (1, 'dup')".to_string(), "trap.unique_violation"),
        Trap::DdlExisting(k) => (["CREATE TABLE t (a INT)", "CREATE UNIQUE INDEX ui ON u (k)", "DROP TABLE t; DROP TABLE t", "CREATE TABLE w (a INT, a INT)", "CREATE TABLE w ()", "CREATE TABLE w (a NOSUCHTYPE)", "ALTER TABLE t ADD COLUMN a INT", "ALTER TABLE nosuch ADD COLUMN z INT", "ALTER TABLE t DROP COLUMN nosuch", "DROP INDEX nosuch"][*k as usize % 10].to_string(), "trap.ddl"),
        Trap::LongInList(n) => {
            let n = [10usize, 300, 3000, 20_000][*n as usize % 4];
            (format!("SELECT a FROM t WHERE a IN ({})", (0..n).map(|i| i.to_string()).collect::<Vec<_>>().join(", ")), "trap.long_in_list")
        }
        Trap::OrderByOdd(k) => (["SELECT a FROM t ORDER BY 1", "SELECT a FROM t ORDER BY 9", "SELECT a FROM t ORDER BY a / 0", "SELECT c, COUNT(*) FROM t GROUP BY c ORDER BY c", "SELECT a FROM t ORDER BY c || 'x', a DESC", "SELECT COUNT(*) FROM t ORDER BY a", "SELECT a FROM t GROUP BY a ORDER BY b"][*k as usize % 7].to_string(), "trap.order_by"),
        Trap::InsertSelect(k) => (["INSERT INTO t SELECT * FROM t", "INSERT INTO t SELECT * FROM t WHERE a > 1", "INSERT INTO u SELECT a + 1000, c FROM t", "INSERT INTO t (a) SELECT k + 500 FROM u", "INSERT INTO t SELECT a, b, c, d, e FROM t ORDER BY a LIMIT 1", "INSERT INTO u SELECT k + 100, e FROM u", "INSERT INTO t SELECT * FROM u", "INSERT INTO t SELECT t.a, t.b, t.c, t.d, t.e FROM t JOIN u ON t.a = u.k", "INSERT INTO u SELECT k, e FROM u", "INSERT INTO t SELECT a / 0, b, c, d, e FROM t"][*k as usize % 10].to_string(), "trap.insert_select"),
        Trap::Join(k, c, w) => {
            let kind = ["JOIN", "LEFT JOIN", "RIGHT JOIN", "FULL JOIN", "CROSS JOIN", "INNER JOIN", "LEFT OUTER JOIN", "RIGHT OUTER JOIN", "FULL OUTER JOIN"][*k as usize % 9];
            let on = ["t.a = u.k", "t.a < u.k", "t.a > u.k", "t.a <> u.k", "t.a <= u.k", "t.a = u.k OR t.b = u.k", "t.a = u.k AND t.b < u.k", "1 = 1", "t.a = u.k AND t.c = u.e", "t.a / 0 = u.k", "t.c = u.e", "t.a IS NULL", "u.k IS NULL", "t.a + 1 = u.k", "NULL", "t.a = u.k AND t.a = u.k", "t.e", "u.k = t.a AND u.k > 1"][*c as usize % 18];
            let tail = ["", " WHERE u.k IS NULL", " WHERE t.a IS NULL", " ORDER BY t.a, u.k", " LIMIT 1", " WHERE t.a > 1 AND u.k > 1", " JOIN u AS v ON v.k = t.a", " RIGHT JOIN u AS v ON v.k < t.a", " FULL JOIN t AS v ON v.a = u.k"][*w as usize % 9];
            let head = if tail.contains(" AS v ") { "SELECT t.a, u.k" } else { "SELECT *" };
            if kind == "CROSS JOIN" {
                (format!("{head} FROM t CROSS JOIN u{tail}"), "trap.join")
            } else {
                (format!("{head} FROM t {kind} u ON {on}{tail}"), "trap.join")
            }
        }
        Trap::LimitOdd(k) => (["SELECT a FROM t LIMIT -1", "SELECT a FROM t LIMIT 0", "SELECT a FROM t LIMIT 99999999999999999999", "SELECT a FROM t LIMIT 1.5", "SELECT a FROM t LIMIT a", "SELECT a FROM t OFFSET 5", "SELECT a FROM t LIMIT 1 OFFSET -3", "SELECT a FROM t LIMIT NULL"][*k as usize % 8].to_string(), "trap.limit"),
    }
}

fn tokens_of(s: &str) -> Vec<String> {
    // a crude tokenisation good enough for mutation: words, numbers, quoted strings, single punctuation
    let mut out = vec![];
    let cs: Vec<char> = s.chars().collect();
    let mut i = 0;
    while i < cs.len() {
        let c = cs[i];
        if c.is_whitespace() {
            i += 1;
        } else if c == '\'' {
            let mut j = i + 1;
            while j < cs.len() && cs[j] != '\'' {
                j += 1;
            }
            out.push(cs[i..(j + 1).min(cs.len())].iter().collect());
            i = j + 1;
        } else if c.is_alphanumeric() || c == '_' || c == '.' {
            let mut j = i;
            while j < cs.len() && (cs[j].is_alphanumeric() || cs[j] == '_' || cs[j] == '.') {
                j += 1;
            }
            out.push(cs[i..j].iter().collect());
            i = j;
        } else {
            out.push(c.to_string());
            i += 1;
        }
    }
    out
}

pub fn inp_sql(i: &Inp) -> (String, &'static str) {
    match i {
        Inp::Bytes(b) => (String::from_utf8_lossy(b).into_owned(), "input.bytes"),
        Inp::Printable(s) => (s.clone(), "input.printable"),
        Inp::Soup(t) => (t.iter().map(|k| VOCAB[*k as usize % VOCAB.len()]).collect::<Vec<_>>().join(" "), "input.soup"),
        Inp::Mutated { base, muts } => {
            let mut toks = tokens_of(BASES[*base as usize % BASES.len()]);
            for (kind, pos, tok) in muts {
                if toks.is_empty() {
                    break;
                }
                let p = *pos as usize % toks.len();
                let v = VOCAB[*tok as usize % VOCAB.len()].to_string();
                match kind % 7 {
                    0 => {
                        toks.remove(p);
                    }
                    1 => {
                        let t = toks[p].clone();
                        toks.insert(p, t);
                    }
                    2 => {
                        let q = (p + 1) % toks.len();
                        toks.swap(p, q);
                    }
                    3 => toks[p] = v,
                    4 => toks.truncate(p),
                    5 => toks.push(v),
                    _ => toks.insert(p, v),
                }
            }
            (toks.join(" "), "input.mutated")
        }
        Inp::Nest { kind, depth } => {
            let d = (*depth as usize % 400) + 1;
            let s = match kind % 8 {
                0 => format!("SELECT a FROM t WHERE {}a = 1{}", "(".repeat(d), ")".repeat(d)),
                1 => format!("SELECT a FROM t WHERE {}a = 1", "NOT ".repeat(d)),
                2 => format!("SELECT a FROM t WHERE a = 1{}", " AND a = 1".repeat(d)),
                3 => format!("SELECT a{} FROM t", " + 1".repeat(d)),
                4 => format!("SELECT {}a{} FROM t", "(".repeat(d), ")".repeat(d)),
                5 => format!("SELECT a FROM t WHERE {}a = 1", "(".repeat(d)),
                6 => format!("SELECT a FROM t WHERE a = {}1", "- ".repeat(d)),
                _ => format!("SELECT a FROM t WHERE c = 'a'{}", " || 'b'".repeat(d)),
            };
            (s, "input.nested")
        }
        Inp::Trap(t) => trap_sql(t),
    }
}

const TABLES: [&str; 4] = ["t", "u", "z", "w"];

fn snapshot_state(db: &mut Db, sess: Option<u8>) -> Vec<(String, Option<Vec<Vec<Val>>>)> {
    TABLES
        .iter()
        .map(|t| {
            let q = format!("SELECT * FROM {t}");
            let r = match sess {
                Some(s) => db.sexec(s, &q),
                None => db.exec(&q),
            };
            (t.to_string(), match r {
                Ok(Out::Rows { rows, .. }) => Some(rows),
                _ => None,
            })
        })
        .collect()
}

fn same_state(a: &[(String, Option<Vec<Vec<Val>>>)], b: &[(String, Option<Vec<Vec<Val>>>)]) -> Option<String> {
    for ((n, x), (_, y)) in a.iter().zip(b) {
        match (x, y) {
            (None, None) => {}
            (Some(x), Some(y)) => {
                if crate::sqlmodel::multiset(x) != crate::sqlmodel::multiset(y) {
                    return Some(format!("table {n}: before {} rows {}, after {} rows {}", x.len(), crate::workload::show_rows(x), y.len(), crate::workload::show_rows(y)));
                }
            }
            (Some(_), None) => return Some(format!("table {n} existed before the failing statement and cannot be read after it")),
            (None, Some(_)) => return Some(format!("table {n} did not exist before the failing statement and exists after it")),
        }
    }
    None
}

pub fn run_case(c: &RCase) -> CaseOut {
    let mut out = CaseOut::pass();
    out.evals = 0;
    let pool = [1u8, 2, 4][c.pool as usize % 3];
    let cache = [10_000u32, 10_000, 64, 24, 16][c.cache as usize % 5];
    let mut db = match Db::create(Cfg { pool, cache, ..Cfg::default() }) {
        Ok(d) => d,
        Err(e) => return CaseOut::fail(Failure::new("create_failed", e)),
    };
    for s in [
        "CREATE TABLE t (a INT, b BIGINT, c TEXT, d DOUBLE, e BOOL)",
        "INSERT INTO t VALUES (1, 10, 'alice', 1.5, TRUE), (2, 20, 'al', -2.5, FALSE), (3, NULL, NULL, NULL, NULL)",
        "INSERT INTO t VALUES (4, 9223372036854775807, '', 0.0, TRUE), (2147483647, -5, 'it''s', 100.25, NULL), (-6, 0, 'a%b_c\\', -0.0, FALSE)",
        "CREATE TABLE u (k INT, e TEXT)",
        "INSERT INTO u VALUES (1, 'x'), (2, NULL), (3, 'zz'), (5, 'alice'), (8, ''), (13, 'y')",
        "CREATE UNIQUE INDEX uk ON u (k)",
    ] {
        if let Err(e) = db.exec(s) {
            out.labels.push("abandoned.setup".into());
            let _ = e;
            out.evals = 1;
            return out;
        }
    }
    let mut in_sess = false;
    let mut sess_ddl = false;
    let mut failed_then_ok = false;
    let mut had_failure = false;
    // a successful statement may have changed u's shape (DDL): the write probe below only runs while none did
    let mut schema_touched = false;
    let mut insert_selects = 0;
    let mut update_execs: std::collections::HashMap<String, (u32, u64)> = Default::default();
    let mut heavy_updates: std::collections::BTreeSet<String> = Default::default();
    let mut multi_row_versions = 0u64;
    // a statement failed inside a session while the open finding about such statements is excluded: what the session
    // leaves behind (e.g. a committed row that is in no index) is that finding's business, the write probe stays off
    let mut polluted = false;
    let mut transcript: Vec<String> = vec![];
    let show = |s: &str| truncate(&s.replace('\n', "\\n"), 300);
    // (step, compare the state across this statement): inside a Repeat only every 16th repetition pays for it
    let expanded: Vec<(St, bool)> = c.steps.iter().flat_map(|s| match s {
        St::Repeat(inp, n) => {
            let k = (*n as usize % 300) + 2;
            (0..k).map(|j| (St::Auto(inp.clone()), j % 16 == 15 || j + 1 == k)).collect::<Vec<_>>()
        }
        o => vec![(o.clone(), true)],
    }).collect();
    for (i, (st, check_state)) in expanded.iter().enumerate() {
        if !db.usable() {
            break;
        }
        let (inp, sess) = match st {
            St::Repeat(..) => continue,
            St::Begin => {
                if !in_sess && db.begin(0).is_ok() {
                    in_sess = true;
                    sess_ddl = false;
                    transcript.push(format!("[{i}] BEGIN"));
                }
                continue;
            }
            St::Commit | St::Rollback => {
                if in_sess {
                    // DDL that does not commit has open findings of its own (C03/C15: index, drop, create, alter):
                    // such a session is committed instead, and counted
                    let ddl_rollback_excluded = ["txn.noncommit_after_create_index", "txn.noncommit_after_drop", "txn.noncommit_after_alter", "admin.vacuum_after_rolled_back_create"].iter().any(|t| c.excluded.iter().any(|x| x == t));
                    let commit = matches!(st, St::Commit) || (sess_ddl && ddl_rollback_excluded);
                    if commit && !matches!(st, St::Commit) {
                        out.excluded.push("txn.noncommit_after_ddl".into());
                    }
                    let r = if commit { db.commit(0) } else { db.rollback(0) };
                    in_sess = false;
                    transcript.push(format!("[{i}] {}", if commit { "COMMIT" } else { "ROLLBACK" }));
                    if let Err(crate::dbx::Err::Panic(p)) = r {
                        out.failure = Some(Failure::new("panic", format!("at transaction end: {p}\n  {}", transcript.join("\n  "))).with_tags(vec!["txn.end".to_string()]));
                        break;
                    }
                }
                continue;
            }
            St::Auto(inp) => {
                if in_sess {
                    (inp, true)
                } else {
                    (inp, false)
                }
            }
            St::Sess(inp) => (inp, in_sess),
        };
        let (sql, tag) = inp_sql(inp);
        if c.excluded.iter().any(|t| t == tag) {
            out.excluded.push(tag.to_string());
            continue;
        }
        // Rows of several hundred bytes and more belong to the open B+tree finding about big cells
        // (F-C10-empty-leaf-after-split, tag payload.overflow_cell). While it is excluded, C16 keeps rows small:
        // no long INSERT / UPDATE texts (a long text can only carry long values), and a bound on how far UPDATEs
        // may grow the version chains of several rows at once (one or two rows may take hundreds of versions: they
        // still share a leaf with the small ones).
        if c.excluded.iter().any(|x| x == "payload.overflow_cell") {
            let u = sql.to_uppercase();
            if sql.len() > 400 && (tag == "trap.big_text" || u.contains("INSERT") || u.contains("UPDATE")) {
                out.excluded.push("payload.overflow_cell".into());
                continue;
            }
            if u.contains("UPDATE") {
                let (execs, last_affected) = update_execs.get(&sql).copied().unwrap_or((0u32, 0u64));
                let heavy_full = execs >= 12 && !heavy_updates.contains(&sql) && heavy_updates.len() >= 2;
                if (last_affected > 1 && multi_row_versions >= 24) || heavy_full {
                    out.excluded.push("payload.overflow_cell".into());
                    continue;
                }
                if execs >= 12 {
                    heavy_updates.insert(sql.clone());
                }
            }
        }
        // INSERT ... SELECT from the table itself doubles it: a handful per case keeps "bounded time" meaningful
        {
            let u = sql.to_uppercase();
            if u.contains("INSERT") && u.contains("SELECT") {
                if insert_selects >= 4 {
                    continue;
                }
                insert_selects += 1;
            }
        }
        let s_id = if sess { Some(0u8) } else { None };
        let before = if *check_state { snapshot_state(&mut db, s_id) } else { vec![] };
        if !db.usable() {
            break;
        }
        out.evals += 1;
        if transcript.len() > 40 {
            transcript.drain(1..20);
            transcript[0] = "[…]".into();
        }
        transcript.push(format!("[{i}] {}{}", if sess { "in session: " } else { "" }, show(&sql)));
        let r = match s_id {
            Some(s) => db.sexec(s, &sql),
            None => db.exec(&sql),
        };
        let mut tags = vec![tag.to_string(), if sess { "in_session".to_string() } else { "autocommit".to_string() }];
        let upper = sql.to_uppercase();
        if upper.contains("UPDATE") {
            tags.push("stmt.contains_update".into());
        }
        if upper.contains("INDEX") && upper.contains("CREATE") {
            tags.push("stmt.create_index".into());
        }
        match r {
            Ok(ref o) => {
                if had_failure {
                    failed_then_ok = true;
                }
                if upper.contains("UPDATE") {
                    let n = if let Out::Affected(n) = o { *n } else { 0 };
                    let e = update_execs.entry(sql.clone()).or_insert((0, 0));
                    e.0 += 1;
                    e.1 = n;
                    if n > 1 {
                        multi_row_versions += n;
                    }
                }
                if sess && (matches!(o, Out::Ddl(_)) || upper.contains("CREATE") || upper.contains("DROP") || upper.contains("ALTER")) {
                    sess_ddl = true;
                }
                if matches!(o, Out::Ddl(_)) || upper.contains("CREATE") || upper.contains("DROP") || upper.contains("ALTER") {
                    schema_touched = true;
                }
            }
            Err(crate::dbx::Err::Panic(p)) => {
                out.failure = Some(Failure::new("panic", format!("`{}` killed a worker: {p}\n  {}", show(&sql), transcript.join("\n  "))).with_tags(tags));
                break;
            }
            Err(_) => {
                had_failure = true;
                if sess && c.excluded.iter().any(|x| x == "state_check.after_failed_stmt_in_session") {
                    polluted = true;
                }
                if upper.contains("INDEX") && upper.contains("CREATE") && c.excluded.iter().any(|x| x == "ddl.failed_create_index") {
                    // open finding: a CREATE UNIQUE INDEX that fails leaves the table's catalog entry pointing to a
                    // non-existent index; the rest of this sequence would only rediscover it
                    out.excluded.push("ddl.failed_create_index".into());
                    break;
                }
                if !*check_state {
                    continue;
                }
                // liveness + state
                let probe = match s_id {
                    Some(s) => db.sexec(s, "SELECT k FROM u WHERE k = 1"),
                    None => db.exec("SELECT k FROM u WHERE k = 1"),
                };
                match probe {
                    Ok(_) => {}
                    Err(crate::dbx::Err::Panic(p)) => {
                        out.failure = Some(Failure::new("panic", format!("probe after the failed `{}` killed a worker: {p}\n  {}", show(&sql), transcript.join("\n  "))).with_tags(tags));
                        break;
                    }
                    Err(e) => {
                        // u may have been dropped by an earlier successful statement
                        if before.iter().any(|(n, r)| n == "u" && r.is_some()) {
                            out.failure = Some(Failure::new("unusable_after_error", format!("after the failed `{}` a probe SELECT fails: {}\n  {}", show(&sql), e.text(), transcript.join("\n  "))).with_tags(tags));
                            break;
                        }
                    }
                }
                // "keeps working" includes writing: outside sessions, and while no successful DDL changed u, a row is
                // inserted into u and deleted again (the state comparison below sees u as before)
                if s_id.is_none() && !in_sess && !schema_touched && !polluted && before.iter().any(|(n, r)| n == "u" && r.is_some()) {
                    let w = db.exec("INSERT INTO u VALUES (987654, 'probe')");
                    let werr = match w {
                        Ok(_) => match db.exec("DELETE FROM u WHERE k = 987654") {
                            Ok(_) => None,
                            Err(e) => Some(("DELETE FROM u WHERE k = 987654", e)),
                        },
                        Err(e) => {
                            let t = e.text().to_lowercase();
                            if t.contains("unique") || t.contains("duplicate") { None } else { Some(("INSERT INTO u VALUES (987654, 'probe')", e)) }
                        }
                    };
                    match werr {
                        None => {}
                        Some((_, crate::dbx::Err::Panic(p))) => {
                            out.failure = Some(Failure::new("panic", format!("write probe after the failed `{}` killed a worker: {p}\n  {}", show(&sql), transcript.join("\n  "))).with_tags(tags));
                            break;
                        }
                        Some((q, e)) => {
                            out.failure = Some(Failure::new("unusable_after_error", format!("after the failed `{}` the write probe `{q}` fails: {}\n  {}", show(&sql), e.text(), transcript.join("\n  "))).with_tags(tags));
                            break;
                        }
                    }
                }
                // open findings of C03 (a failed UPDATE keeps the rows it already changed; a statement that fails inside
                // a session keeps its partial effects): the state comparison is skipped for those, and counted
                let skip_state = (upper.contains("UPDATE") && c.excluded.iter().any(|x| x == "state_check.after_failed_update")) || (sess && c.excluded.iter().any(|x| x == "state_check.after_failed_stmt_in_session"));
                if skip_state {
                    out.excluded.push(if sess { "state_check.after_failed_stmt_in_session".into() } else { "state_check.after_failed_update".into() });
                    continue;
                }
                let after = snapshot_state(&mut db, s_id);
                if !db.usable() {
                    break;
                }
                if let Some(d) = same_state(&before, &after) {
                    out.failure = Some(Failure::new("failed_statement_changed_data", format!("`{}` returned an error but {d}\n  {}", show(&sql), transcript.join("\n  "))).with_tags(tags));
                    break;
                }
            }
        }
    }
    if out.failure.is_none() {
        if let Some(p) = crate::panics::take().into_iter().next() {
            // a panic that the wrapper did not attribute to a call (e.g. in a background worker)
            out.failure = Some(Failure::new("panic", format!("a worker panicked: {}\n  {}", p.signature(), transcript.join("\n  "))));
        }
    }
    if failed_then_ok {
        out.nontrivial.push(hash_of(&c.steps));
    }
    if out.evals == 0 {
        out.evals = 1;
    }
    let _ = crate::panics::take();
    out
}

fn gen_trap() -> BoxedStrategy<Trap> {
    prop_oneof![
        any::<u8>().prop_map(Trap::DivZero),
        any::<u8>().prop_map(Trap::Overflow),
        any::<u8>().prop_map(Trap::WrongTypes),
        any::<u8>().prop_map(Trap::UnknownName),
        Just(Trap::Ambiguous),
        Just(Trap::AggInWhere),
        Just(Trap::Having),
        any::<u8>().prop_map(Trap::Case),
        any::<u8>().prop_map(Trap::Subquery),
        Just(Trap::Union),
        (any::<u8>(), any::<u8>()).prop_map(|(f, a)| Trap::Func(f, a)),
        any::<u8>().prop_map(Trap::LikeOdd),
        any::<u16>().prop_map(Trap::BigText),
        any::<u8>().prop_map(Trap::InsertShape),
        Just(Trap::UniqueViolation),
        any::<u8>().prop_map(Trap::DdlExisting),
        any::<u16>().prop_map(Trap::LongInList),
        any::<u8>().prop_map(Trap::OrderByOdd),
        any::<u8>().prop_map(Trap::LimitOdd),
        any::<u8>().prop_map(Trap::InsertSelect),
        (any::<u8>(), any::<u8>(), any::<u8>()).prop_map(|(k, c, w)| Trap::Join(k, c, w)),
        (any::<u8>(), any::<u8>(), any::<u8>()).prop_map(|(k, c, w)| Trap::Join(k, c, w)),
    ]
    .boxed()
}

fn gen_inp() -> BoxedStrategy<Inp> {
    prop_oneof![
        1 => prop::collection::vec(any::<u8>(), 0..60).prop_map(Inp::Bytes),
        1 => "[ -~]{0,60}".prop_map(Inp::Printable),
        4 => prop::collection::vec(any::<u16>(), 1..24).prop_map(Inp::Soup),
        5 => (any::<u8>(), prop::collection::vec((any::<u8>(), any::<u16>(), any::<u16>()), 1..4)).prop_map(|(base, muts)| Inp::Mutated { base, muts }),
        1 => (any::<u8>(), any::<u16>()).prop_map(|(kind, depth)| Inp::Nest { kind, depth }),
        6 => gen_trap().prop_map(Inp::Trap),
    ]
    .boxed()
}

fn gen_step() -> BoxedStrategy<St> {
    let rep = prop_oneof![
        (any::<u8>()).prop_map(|k| Inp::Mutated { base: [3u8, 5, 6, 4][k as usize % 4], muts: vec![] }),
        Just(Inp::Printable("UPDATE t SET b = 1 WHERE a = 1".into())),
        Just(Inp::Printable("UPDATE u SET e = e || 'x' WHERE k = 1".into())),
        Just(Inp::Printable("INSERT INTO t (a) VALUES (7)".into())),
        Just(Inp::Printable("DELETE FROM t WHERE a = 7".into())),
        Just(Inp::Printable("CREATE TABLE z (p INT)".into())),
        gen_trap().prop_map(Inp::Trap),
    ];
    prop_oneof![32 => gen_inp().prop_map(St::Auto), 1 => (rep, any::<u16>()).prop_map(|(i, n)| St::Repeat(i, n)), 4 => Just(St::Begin), 12 => gen_inp().prop_map(St::Sess), 4 => Just(St::Commit), 4 => Just(St::Rollback)].boxed()
}

pub fn simpler(c: &RCase) -> Vec<RCase> {
    let mut v = vec![];
    for i in (0..c.steps.len()).rev() {
        let mut d = c.clone();
        d.steps.remove(i);
        v.push(d);
    }
    for (i, s) in c.steps.iter().enumerate() {
        let inner = match s {
            St::Auto(x) | St::Sess(x) => x,
            St::Repeat(x, n) => {
                let k = (*n as usize % 300) + 2;
                let mut d = c.clone();
                d.steps[i] = St::Repeat(x.clone(), (k / 2) as u16);
                if k > 3 {
                    v.push(d);
                }
                let mut d = c.clone();
                d.steps[i] = St::Repeat(x.clone(), (k.saturating_sub(3)) as u16);
                if k > 3 {
                    v.push(d);
                }
                continue;
            }
            _ => continue,
        };
        let mk = |x: Inp| {
            let mut d = c.clone();
            d.steps[i] = match s {
                St::Sess(_) => St::Sess(x),
                _ => St::Auto(x),
            };
            d
        };
        match inner {
            Inp::Soup(t) if t.len() > 1 => {
                for j in 0..t.len() {
                    let mut t2 = t.clone();
                    t2.remove(j);
                    v.push(mk(Inp::Soup(t2)));
                }
            }
            Inp::Mutated { base, muts } if muts.len() > 1 => {
                for j in 0..muts.len() {
                    let mut m = muts.clone();
                    m.remove(j);
                    v.push(mk(Inp::Mutated { base: *base, muts: m }));
                }
            }
            Inp::Bytes(b) if b.len() > 1 => {
                v.push(mk(Inp::Bytes(b[..b.len() / 2].to_vec())));
                v.push(mk(Inp::Bytes(b[b.len() / 2..].to_vec())));
                for j in 0..b.len().min(40) {
                    let mut b2 = b.clone();
                    b2.remove(j);
                    v.push(mk(Inp::Bytes(b2)));
                }
            }
            Inp::Printable(p) if p.len() > 1 => {
                let cs: Vec<char> = p.chars().collect();
                v.push(mk(Inp::Printable(cs[..cs.len() / 2].iter().collect())));
                v.push(mk(Inp::Printable(cs[cs.len() / 2..].iter().collect())));
                for j in 0..cs.len().min(40) {
                    let mut c2 = cs.clone();
                    c2.remove(j);
                    v.push(mk(Inp::Printable(c2.into_iter().collect())));
                }
            }
            Inp::Nest { kind, depth } if *depth % 400 > 0 => {
                v.push(mk(Inp::Nest { kind: *kind, depth: (*depth % 400) / 2 }));
                v.push(mk(Inp::Nest { kind: *kind, depth: (*depth % 400) - 1 }));
            }
            _ => {}
        }
    }
    v
}

pub fn run_shard(ctx: &mut ShardCtx) {
    if ctx.shard == 0 {
        ctx.witnesses(&replay);
    }
    let excluded: Vec<String> = ctx.excludes.keys().cloned().collect();
    let n = ctx.share(ctx.tier.pick(16_000, 400_000));
    let strat = (prop::collection::vec(gen_step(), 6..15), any::<u8>()).prop_map(move |(steps, pool)| RCase { steps, pool: pool % 3, cache: pool / 3, excluded: excluded.clone() });
    ctx.search_with("inputs", strat, n, &run_case, Some(&simpler));
}

/// The case a libFuzzer input stands for (harness/fuzz/fuzz_targets/sql_exec.rs): byte 0 picks pool, cache and
/// whether the statements run inside a session (and how it ends); the rest is up to six statements separated by
/// 0xFF bytes, each handed to the engine as text (lossy UTF-8, like `Inp::Bytes`).
pub fn case_from_fuzz_bytes(data: &[u8], excluded: &[String]) -> Option<RCase> {
    if data.len() < 2 {
        return None;
    }
    let mode = data[0];
    let in_session = mode & 0x10 != 0;
    let mut steps = vec![];
    if in_session {
        steps.push(St::Begin);
    }
    for part in data[1..].split(|b| *b == 0xFF).filter(|p| !p.is_empty()).take(6) {
        let inp = Inp::Bytes(part[..part.len().min(4096)].to_vec());
        steps.push(if in_session { St::Sess(inp) } else { St::Auto(inp) });
    }
    if in_session {
        steps.push(if mode & 0x20 != 0 { St::Commit } else { St::Rollback });
    }
    // a plain read at the end: the session and the database keep working
    steps.push(St::Auto(Inp::Printable("SELECT a FROM t WHERE a = 1".into())));
    Some(RCase { steps, pool: mode & 3, cache: (mode >> 2) & 3, excluded: excluded.to_vec() })
}

/// Seed inputs for the fuzzer: the base statements of the generator, and a few multi-statement inputs.
pub fn fuzz_seed_corpus() -> Vec<Vec<u8>> {
    let mut v: Vec<Vec<u8>> = BASES.iter().map(|b| {
        let mut x = vec![0u8];
        x.extend_from_slice(b.as_bytes());
        x
    }).collect();
    for (i, w) in BASES.windows(3).enumerate() {
        let mut x = vec![(i as u8).wrapping_mul(37)];
        for (j, b) in w.iter().enumerate() {
            if j > 0 {
                x.push(0xFF);
            }
            x.extend_from_slice(b.as_bytes());
        }
        v.push(x);
    }
    // one text of every trap family (the statement shapes the generated search knows to be delicate), so that the
    // fuzzer mutates around them instead of having to invent SQL from nothing
    let mut traps: Vec<Trap> = vec![Trap::Ambiguous, Trap::AggInWhere, Trap::Having, Trap::Union, Trap::UniqueViolation];
    for k in 0..18u8 {
        traps.extend([Trap::InsertSelect(k), Trap::DivZero(k), Trap::Overflow(k), Trap::WrongTypes(k), Trap::UnknownName(k), Trap::Case(k), Trap::Subquery(k), Trap::LikeOdd(k), Trap::InsertShape(k), Trap::DdlExisting(k), Trap::OrderByOdd(k), Trap::LimitOdd(k), Trap::Func(k, k), Trap::Func(k, k.wrapping_mul(7) % 15)]);
        traps.push(Trap::Join(k % 9, k, k % 9));
        traps.push(Trap::Join((k + 2) % 9, k, 0));
    }
    let mut seen = std::collections::BTreeSet::new();
    for (i, t) in traps.iter().enumerate() {
        let (sql, _) = trap_sql(t);
        if sql.len() < 600 && seen.insert(sql.clone()) {
            let mut x = vec![(i as u8).wrapping_mul(53)];
            x.extend_from_slice(sql.as_bytes());
            v.push(x);
        }
    }
    v
}

/// libFuzzer dictionary: the tokens of the SQL dialect and the names of the fixture (entries are written in the
/// dictionary's own escaping).
pub fn fuzz_dictionary() -> String {
    let words = [
        "SELECT", "FROM", "WHERE", "GROUP BY", "ORDER BY", "HAVING", "LIMIT", "OFFSET", "DISTINCT", "AS", "JOIN", "LEFT", "RIGHT", "FULL", "OUTER", "INNER", "CROSS", "ON", "AND", "OR", "NOT", "IS", "NULL", "IN", "BETWEEN", "LIKE", "EXISTS", "CASE", "WHEN", "THEN", "ELSE", "END", "UNION", "ALL", "INSERT", "INTO", "VALUES", "UPDATE", "SET", "DELETE", "CREATE", "TABLE", "UNIQUE", "INDEX", "DROP", "ALTER", "ADD", "COLUMN", "DEFAULT", "PRIMARY KEY", "IF", "TRUE", "FALSE", "ASC", "DESC", "COUNT", "SUM", "AVG", "MIN", "MAX", "ABS", "LENGTH", "UPPER", "LOWER", "COALESCE", "NULLIF", "ROUND", "CAST", "INT", "BIGINT", "TEXT", "DOUBLE", "BOOL", "BEGIN", "COMMIT", "ROLLBACK", "EXPLAIN", "ANALYZE", "VACUUM", " t ", " u ", "t.a", "t.b", "t.c", "t.d", "t.e", "u.k", "u.e", "(", ")", ",", ";", "*", "+", "-", "/", "%", "=", "<>", "!=", "<", "<=", ">", ">=", "||", "'", "''", r#"\""#, "--", "0", "1", "2147483647", "9223372036854775807", "1.5", "1e308", r#"\xff"#,
    ];
    words.iter().map(|w| format!("\"{w}\"\n")).collect()
}

pub fn replay(kind: &str, case: &Value) -> CaseOut {
    match kind {
        "inputs" => match from_value::<RCase>(case) {
            Ok(c) => run_case(&c),
            Err(e) => CaseOut::fail(Failure::new("bad_replay", e)),
        },
        _ => CaseOut::fail(Failure::new("bad_replay", format!("unknown kind {kind}"))),
    }
}
