//! C04 — transactions read a consistent snapshot (snapshot isolation). DESIGN.md §2/C04.
use crate::dbx::Cfg;
use crate::engine::*;
use crate::workload::*;
use proptest::prelude::*;
use serde::{Deserialize, Serialize};
use serde_json::Value;
use std::collections::BTreeMap;

pub fn info() -> PropertyInfo {
    PropertyInfo {
        id: "C04",
        level: "exploration",
        rule: "2-3 concurrently open sessions plus autocommit statements over one or two small unconstrained tables; the harness thread owns the statement-level schedule (statements are synchronous), so an interleaving is the generated step order itself and shrinks toward the serial one. Statements: SELECT by predicate, INSERT, DELETE, UPDATE (only where no open finding forbids it), ended by COMMIT / ROLLBACK / session drop. Oracle: snapshot-isolation reference model (snapshot of the committed state at BEGIN overlaid with own writes; commit replays the row-level effects; first-committer-wins on rows updated/deleted by a transaction that committed after this one began): every SELECT result inside a session, every affected-row count, the commit outcome, and a fresh read of every table whenever no session is open. non-trivial = a schedule in which a writer committed or rolled back between two reads of another still-open session, or two open sessions wrote the same row; distinct = hash of the step list.",
        assumptions: &[
            "the SI reference model in harness/src/sqlmodel.rs (Model/Txn)",
            "tables carry no UNIQUE/PK constraints here (constraint checks under concurrency are C07's subject); no DDL after the initial CREATE TABLE",
            "for 'cannot both commit' only the outcome is asserted (the later committer must fail); which statement reports it is left free",
        ],
        budget_s: (300, 3000),
        hang_is_violation: false,
        max_shards: 16,
        run_shard,
        replay,
    }
}

#[derive(Clone, Debug, Serialize, Deserialize)]
pub struct Sched {
    pub cfg: Cfg,
    pub steps: Vec<Step>,
    /// generator feature tags that were switched off (open findings) when this case was generated
    #[serde(default)]
    pub excluded: Vec<String>,
    /// do not assert first-committer-wins (set while F-C04-no-ww-validation is open)
    #[serde(default)]
    pub tolerate_ww: bool,
}

pub fn run_with(c: &Sched) -> CaseOut {
    let excluded: BTreeMap<String, String> = c.excluded.iter().map(|t| (t.clone(), String::new())).collect();
    let excluded = &excluded;
    let mut out = CaseOut::pass();
    let mut it = match Interp::new(c.cfg, excluded.clone()) {
        Ok(i) => i,
        Err(f) => return CaseOut::fail(f),
    };
    it.sequential = false;
    it.tolerate_ww_conflict = c.tolerate_ww;
    let mut fail = None;
    for (i, st) in c.steps.iter().enumerate() {
        if !it.db.usable() {
            break;
        }
        let had_sessions = !it.txns.is_empty();
        if let Some(f) = it.step(i, st) {
            fail = classify(f, had_sessions || it.tags.contains("txn.concurrent"), &mut out);
            break;
        }
    }
    if fail.is_none() && it.db.usable() && out.labels.iter().all(|l| !l.starts_with("abandoned")) {
        let open: Vec<u8> = it.txns.keys().copied().collect();
        for s in open {
            if let Some(f) = it.step(c.steps.len(), &Step::Rollback(s)) {
                fail = classify(f, true, &mut out);
                break;
            }
        }
    }
    for t in &it.skipped {
        out.excluded.push(t.clone());
    }
    for l in ["txn.concurrent", "txn.same_row_write", "txn.rollback", "txn.commit", "update", "delete", "insert"] {
        if it.tags.contains(l) {
            out.labels.push(l.to_string());
        }
    }
    if it.saw_foreign_end_between_reads {
        out.labels.push("foreign_end_between_reads".into());
    }
    if it.saw_foreign_end_between_reads || it.saw_concurrent_same_row_write {
        out.nontrivial.push(hash_of(&c.steps));
    }
    out.failure = fail;
    out
}

fn classify(f: Failure, concurrent_context: bool, out: &mut CaseOut) -> Option<Failure> {
    let c = f.clause.clone();
    if c == "panic" {
        out.labels.push("abandoned.panic".into());
        return None;
    }
    if !concurrent_context {
        // a divergence in a purely serial prefix is not about isolation
        out.labels.push(format!("abandoned.serial.{c}"));
        return None;
    }
    let clause = match c.as_str() {
        "select_extra_rows" | "select_missing_rows" | "select_rows_differ" => format!("snapshot_read.{}", &c[7..]),
        "wrong_affected_count" => "snapshot_write_set.wrong_affected_count".to_string(),
        "extra_rows" | "missing_rows" | "rows_differ" => format!("final_state.{c}"),
        other => other.to_string(),
    };
    Some(Failure { clause, ..f })
}

pub fn opts(ctx: &ShardCtx) -> GenOpts {
    GenOpts {
        sessions: 3,
        max_steps: ctx.limit("steps", 26) as usize,
        ddl: false,
        drop_table: false,
        create_index: false,
        bad: false,
        batch: false,
        constraints: false,
        defaults: false,
        update_indexed: false,
        w_select: 14,
        w_begin: 6,
        ..GenOpts::default()
    }
}

/// Model-free invariants of snapshot isolation, checked on the engine alone (so they also cover the
/// schedules the model-based check must skip because of open findings):
///  (1) a ROLLBACK / session drop never changes what a fresh reader sees;
///  (2) an uncommitted write of a session never changes what a fresh reader sees;
///  (3) a session that repeats a SELECT without having written in between gets the same rows.
pub fn run_invariants(c: &Sched) -> CaseOut {
    use crate::dbx::{Db, Out};
    use crate::sqlmodel::*;
    let mut out = CaseOut::pass();
    let mut db = match Db::create(c.cfg) {
        Ok(d) => d,
        Err(e) => return CaseOut::fail(Failure::new("create_failed", e)),
    };
    let allow_update = !c.excluded.iter().any(|t| t == "update.in_session");
    // shadow state: only used to resolve table / column references of the abstract statements
    let mut shadow = Model::default();
    let mut transcript: Vec<String> = vec![];
    let mut open: BTreeMap<u8, (Txn, BTreeMap<String, Vec<Vec<Val>>>)> = BTreeMap::new();
    let fresh = |db: &mut Db| -> Result<Vec<(String, Vec<Vec<Val>>)>, String> {
        let mut v = vec![];
        for t in ["t0", "t1", "t2"] {
            match db.exec(&format!("SELECT * FROM {t}")) {
                Ok(Out::Rows { rows, .. }) => v.push((t.to_string(), rows)),
                Ok(_) => {}
                Err(crate::dbx::Err::Panic(p)) => return Err(p),
                Err(_) => {}
            }
        }
        Ok(v)
    };
    let same = |a: &[(String, Vec<Vec<Val>>)], b: &[(String, Vec<Vec<Val>>)]| a.len() == b.len() && a.iter().zip(b).all(|(x, y)| x.0 == y.0 && rows_equal(&x.1, &y.1));
    let mut fail: Option<Failure> = None;
    let mut tags: std::collections::BTreeSet<String> = Default::default();
    let mut nontrivial = false;
    macro_rules! bail {
        ($clause:expr, $($arg:tt)*) => {{
            let tail: Vec<String> = transcript.iter().rev().take(14).rev().cloned().collect();
            fail = Some(Failure::new($clause, format!("{}\n  transcript:\n    {}", format!($($arg)*), tail.join("\n    "))).with_tags(tags.iter().cloned()));
            break;
        }};
    }
    for (i, st) in c.steps.iter().enumerate() {
        if !db.usable() {
            break;
        }
        match st {
            Step::Auto(a) => {
                let s = resolve(a, &shadow.committed);
                if matches!(s, Stmt::Update { .. }) && (!allow_update || !open.is_empty()) {
                    continue;
                }
                let sql = stmt_sql(&s, &shadow.committed);
                transcript.push(format!("[{i}] auto: {sql}"));
                let r = db.exec(&sql);
                if let Err(crate::dbx::Err::Panic(_)) = r {
                    break;
                }
                if r.is_ok() {
                    let _ = shadow.autocommit(&s);
                    if !matches!(s, Stmt::Select { .. }) {
                        // a committed foreign write: sessions may legitimately... no: under SI their reads must NOT change; keep caches
                    }
                }
            }
            Step::Begin(s) => {
                if open.contains_key(s) || db.begin(*s).is_err() {
                    continue;
                }
                transcript.push(format!("[{i}] s{s}: BEGIN"));
                open.insert(*s, (shadow.begin(), BTreeMap::new()));
            }
            Step::Exec(s, a) => {
                let Some((txn, cache)) = open.get_mut(s) else { continue };
                let stmt = resolve(a, &txn.view);
                if matches!(stmt, Stmt::Update { .. }) && !allow_update {
                    continue;
                }
                let sql = stmt_sql(&stmt, &txn.view);
                let is_select = matches!(stmt, Stmt::Select { .. });
                let before = if is_select { None } else {
                    match fresh(&mut db) { Ok(v) => Some(v), Err(_) => break }
                };
                transcript.push(format!("[{i}] s{s}: {sql}"));
                tags.insert(stmt_tags(&stmt, &txn.view).first().cloned().unwrap_or_default());
                let r = db.sexec(*s, &sql);
                let (txn, cache) = open.get_mut(s).unwrap();
                match r {
                    Err(crate::dbx::Err::Panic(_)) => break,
                    Err(_) => {
                        if !is_select {
                            cache.clear(); // a failed own statement may have written (that is C03's subject, not isolation)
                        }
                    }
                    Ok(o) => {
                        let _ = shadow.exec(txn, &stmt);
                        if is_select {
                            if let Out::Rows { rows, .. } = o {
                                if let Some(prev) = cache.get(&sql) {
                                    nontrivial = true;
                                    if !rows_equal(prev, &rows) {
                                        tags.insert("repeat_read".into());
                                        bail!("non_repeatable_read", "step {i}: session {s} repeats `{sql}` without having written in between: first {} then {}", show_rows(prev), show_rows(&rows));
                                    }
                                }
                                cache.insert(sql.clone(), rows);
                            }
                        } else {
                            cache.clear(); // own write: later reads may differ
                        }
                    }
                }
                if let Some(b) = before {
                    let after = match fresh(&mut db) { Ok(v) => v, Err(_) => break };
                    if !same(&b, &after) {
                        tags.insert("uncommitted_write".into());
                        bail!("dirty_read", "step {i}: a fresh reader sees a different state after the uncommitted `{sql}` of session {s}: before {:?} after {:?}", b.iter().map(|(t, r)| format!("{t}:{}", show_rows(r))).collect::<Vec<_>>(), after.iter().map(|(t, r)| format!("{t}:{}", show_rows(r))).collect::<Vec<_>>());
                    }
                }
            }
            Step::Commit(s) => {
                let Some((txn, _)) = open.remove(s) else { continue };
                transcript.push(format!("[{i}] s{s}: COMMIT"));
                if db.commit(*s).is_ok() {
                    shadow.commit(txn);
                }
            }
            Step::Rollback(s) | Step::DropSession(s) => {
                let Some((txn, _)) = open.remove(s) else { continue };
                let before = match fresh(&mut db) { Ok(v) => v, Err(_) => break };
                transcript.push(format!("[{i}] s{s}: {}", if matches!(st, Step::Rollback(_)) { "ROLLBACK" } else { "drop session" }));
                if matches!(st, Step::Rollback(_)) {
                    let _ = db.rollback(*s);
                } else {
                    db.drop_session(*s);
                }
                let after = match fresh(&mut db) { Ok(v) => v, Err(_) => break };
                if txn.wrote {
                    nontrivial = true;
                }
                if !same(&before, &after) {
                    tags.insert("rollback".into());
                    bail!("rollback_changes_committed_state", "step {i}: the rollback of session {s} changed what a fresh reader sees: before {:?} after {:?}", before.iter().map(|(t, r)| format!("{t}:{}", show_rows(r))).collect::<Vec<_>>(), after.iter().map(|(t, r)| format!("{t}:{}", show_rows(r))).collect::<Vec<_>>());
                }
            }
            _ => {}
        }
    }
    let _ = crate::panics::take();
    if nontrivial {
        out.nontrivial.push(hash_of(&("inv", &c.steps)));
    }
    out.labels.push("invariants".into());
    out.failure = fail;
    out
}

/// Programs + interleaving: 2-3 session programs (BEGIN, 1-4 statements, COMMIT/ROLLBACK/drop) and a few
/// autocommit statements, merged by a generated choice sequence (shrinks toward the serial schedule).
fn gen_programs(o: &GenOpts) -> BoxedStrategy<Vec<Step>> {
    let big = false;
    let mut v: Vec<(u32, BoxedStrategy<AStmt>)> = vec![
        (10, (any::<u16>(), gen_apred(big)).prop_map(|(t, pred)| AStmt::Select { t, pred }).boxed()),
        (5, (any::<u16>(), prop::collection::vec(prop::collection::vec(gen_aval(big), 5), 1..3)).prop_map(|(t, rows)| AStmt::Insert { t, rows, partial: false }).boxed()),
        (4, (any::<u16>(), gen_apred(big)).prop_map(|(t, pred)| AStmt::Delete { t, pred }).boxed()),
    ];
    if o.update {
        v.push((3, (any::<u16>(), any::<u16>(), gen_aval(big), prop::option::weighted(0.3, -3i8..4), gen_apred(big)).prop_map(|(t, col, val, add, pred)| AStmt::Update { t, col, val, add, pred }).boxed()));
    }
    let stmt = proptest::strategy::Union::new_weighted(v).boxed();
    let program = (prop::collection::vec(stmt.clone(), 1..5), 0u8..4);
    let create = gen_create(&GenOpts { constraints: false, defaults: false, ..GenOpts::default() });
    (create, prop::collection::vec(prop::collection::vec(gen_aval(false), 5), 2..6), prop::collection::vec(program, 2..4), prop::collection::vec(stmt, 0..4), prop::collection::vec(any::<u8>(), 0..40))
        .prop_map(|(c, rows, programs, autos, order)| {
            let mut steps = vec![Step::Auto(c), Step::Auto(AStmt::Insert { t: 0, rows, partial: false })];
            // queues: one per session program plus one for autocommit statements
            let mut queues: Vec<Vec<Step>> = programs
                .into_iter()
                .enumerate()
                .map(|(i, (stmts, end))| {
                    let s = i as u8;
                    let mut q = vec![Step::Begin(s)];
                    q.extend(stmts.into_iter().map(|st| Step::Exec(s, st)));
                    q.push(match end {
                        0 | 1 => Step::Commit(s),
                        2 => Step::Rollback(s),
                        _ => Step::DropSession(s),
                    });
                    q.reverse();
                    q
                })
                .collect();
            let mut a: Vec<Step> = autos.into_iter().map(Step::Auto).collect();
            a.reverse();
            queues.push(a);
            let mut oi = 0;
            loop {
                let live: Vec<usize> = (0..queues.len()).filter(|i| !queues[*i].is_empty()).collect();
                if live.is_empty() {
                    break;
                }
                let pick = order.get(oi).copied().unwrap_or(0) as usize % live.len();
                oi += 1;
                steps.push(queues[live[pick]].pop().unwrap());
            }
            steps
        })
        .boxed()
}

pub fn run_shard(ctx: &mut ShardCtx) {
    if ctx.shard == 0 {
        ctx.witnesses(&replay);
    }
    let n = ctx.share(ctx.tier.pick(32_000, 800_000));
    let excluded: Vec<String> = ctx.excludes.keys().cloned().collect();
    let tolerate_ww = ctx.excluded("txn.ww_conflict_check");
    let strat = gen_history(&opts(ctx)).prop_map(move |steps| Sched { cfg: Cfg::default(), steps, excluded: excluded.clone(), tolerate_ww });
    ctx.search("schedule", strat, n / 4, &run_with);
    let excluded: Vec<String> = ctx.excludes.keys().cloned().collect();
    let mut o = opts(ctx);
    o.update = !ctx.excluded("update.in_session");
    let strat = gen_programs(&o).prop_map(move |steps| Sched { cfg: Cfg::default(), steps, excluded: excluded.clone(), tolerate_ww });
    ctx.search("schedule", strat, n, &run_with);
    let excluded: Vec<String> = ctx.excludes.keys().cloned().collect();
    let strat = gen_programs(&o).prop_map(move |steps| Sched { cfg: Cfg::default(), steps, excluded: excluded.clone(), tolerate_ww });
    ctx.search("invariants", strat, n / 2, &run_invariants);
}

pub fn replay(kind: &str, case: &Value) -> CaseOut {
    match kind {
        "invariants" => match from_value::<Sched>(case) {
            Ok(c) => run_invariants(&c),
            Err(e) => CaseOut::fail(Failure::new("bad_replay", e)),
        },
        "schedule" => match from_value::<Sched>(case) {
            Ok(c) => run_with(&c),
            Err(e) => CaseOut::fail(Failure::new("bad_replay", e)),
        },
        _ => CaseOut::fail(Failure::new("bad_replay", format!("unknown kind {kind}"))),
    }
}
