//! C06 — the chosen plan never changes the answer. DESIGN.md §2/C06.
use super::c05::{self, AQ, Resolved};
use crate::dbx::{Cfg, Db, Out};
use crate::engine::*;
use crate::qmodel::*;
use crate::sqlmodel::{CmpOp, State, Ty, Val};
use crate::workload::*;
use proptest::prelude::*;
use serde::{Deserialize, Serialize};
use serde_json::Value;
use std::collections::BTreeMap;

pub fn info() -> PropertyInfo {
    PropertyInfo {
        id: "C06",
        level: "exploration",
        rule: "a generated history (tables with PRIMARY KEY / UNIQUE constraints, CREATE UNIQUE INDEX before or after the data, inserts, deletes, updates, rolled-back transactions, failed statements, VACUUM) builds a database and a reference state; then 8 generated queries (single-table selections with sargable and non-sargable predicates, 2-table joins of every kind, aggregates) are each executed (a) as written, (b) with every column of the predicate wrapped (`c + 0`, `c || ''`) so that no index applies, (c) with the operands of every AND/OR exchanged, (d) joins with the FROM order swapped (LEFT<->RIGHT) and the projection restoring the column order, (e) inner joins with the ON condition moved to WHERE over a CROSS JOIN, and (f) once more after ANALYZE; plus, for every single-column unique key, a point lookup of every key present and of two absent keys and two range scans. Oracle: all variants return the reference answer of the query as written (qmodel.rs), compared as multisets (ORDER BY as a predicate). EXPLAIN is used for labelling only. non-trivial = a variant whose EXPLAIN text (costs stripped) differs from that of the query as written, i.e. a different plan really ran; distinct = hash of (history, query, variant).",
        assumptions: &[
            "the reference evaluator (qmodel.rs) and the history model (sqlmodel.rs / workload.rs)",
            "the rewrites are semantics-preserving: x + 0 = x for numbers, s || '' = s for text (NULL-preserving), AND/OR are commutative, A LEFT JOIN B = B RIGHT JOIN A up to column order, an inner join's ON may move to WHERE",
            "a history that diverges from the model before the queries run is another property's business: the case is abandoned and counted",
        ],
        budget_s: (420, 3600),
        hang_is_violation: false,
        max_shards: 16,
        run_shard,
        replay,
    }
}

#[derive(Clone, Debug, Serialize, Deserialize)]
pub struct PCase {
    pub cfg: Cfg,
    pub steps: Vec<Step>,
    pub queries: Vec<AQ>,
    pub analyze: bool,
    #[serde(default)]
    pub excluded: Vec<String>,
}

fn tables_of(st: &State) -> Vec<TableData> {
    st.tables
        .values()
        .map(|t| TableData { name: t.def.name.clone(), cols: t.def.cols.iter().map(|c| (c.name.clone(), c.ty)).collect(), rows: t.rows.values().cloned().collect() })
        .collect()
}

/// The shape of a plan: operator names with their nesting; arguments are kept only where they identify
/// an access path or a join method (scan object ids, join kind). Costs and predicate texts are dropped.
fn strip_costs(plan: &str) -> String {
    let mut out = String::new();
    for line in plan.lines() {
        let indent = line.len() - line.trim_start().len();
        let body = line.trim_start().trim_start_matches("├─").trim_start_matches("└─").trim();
        if body.is_empty() {
            continue;
        }
        let name: String = body.chars().take_while(|c| c.is_alphanumeric() || *c == '_').collect();
        let arg = if ["SeqScan", "IndexScan", "NLJoin", "HashJoin", "MergeJoin"].contains(&name.as_str()) {
            body[name.len()..].split(')').next().map(|a| format!("{a})")).unwrap_or_default()
        } else {
            String::new()
        };
        out.push_str(&format!("{}{}{}\n", " ".repeat(indent), name, arg));
    }
    out
}

/// Wraps every column of a predicate so that it is no longer a bare column reference.
fn deindex(e: &E, ty_of: &dyn Fn(u8, u8) -> Ty) -> E {
    e.map_cols(&|t, c| match ty_of(t, c) {
        Ty::Int | Ty::BigInt | Ty::Double => E::Arith(ArOp::Add, Box::new(E::Col(t, c)), Box::new(E::Lit(Val::Int(0)))),
        Ty::Text => E::Concat(Box::new(E::Col(t, c)), Box::new(E::Lit(Val::Text(String::new())))),
        Ty::Bool => E::Col(t, c),
    })
}

fn join_sql(tables: &[TableData], left: u8, right: u8, kind: JoinKind, on: &Option<E>, pred: &Option<E>, swapped: bool) -> String {
    // aliases stay attached to their tables: a = `left`, b = `right`; the projection is always a.*, b.*
    let (l, r) = (&tables[left as usize], &tables[right as usize]);
    let names = |t: u8, c: u8| if t == 0 { format!("a.{}", l.cols[c as usize].0) } else { format!("b.{}", r.cols[c as usize].0) };
    let proj: Vec<String> = l.cols.iter().map(|c| format!("a.{}", c.0)).chain(r.cols.iter().map(|c| format!("b.{}", c.0))).collect();
    let kw = |k: JoinKind| match k {
        JoinKind::Inner => "JOIN",
        JoinKind::Left => "LEFT JOIN",
        JoinKind::Right => "RIGHT JOIN",
        JoinKind::Full => "FULL JOIN",
        JoinKind::Cross => "CROSS JOIN",
    };
    let from = if swapped {
        let k2 = match kind {
            JoinKind::Left => JoinKind::Right,
            JoinKind::Right => JoinKind::Left,
            k => k,
        };
        format!("{} AS b {} {} AS a", r.name, kw(k2), l.name)
    } else {
        format!("{} AS a {} {} AS b", l.name, kw(kind), r.name)
    };
    let mut s = format!("SELECT {} FROM {}", proj.join(", "), from);
    if let (false, Some(p)) = (matches!(kind, JoinKind::Cross), on) {
        s += &format!(" ON {}", p.sql(&names, false));
    }
    if let Some(p) = pred {
        s += &format!(" WHERE {}", p.sql(&names, false));
    }
    s
}

/// (variant name, SQL) pairs that must all return the answer of `q`.
fn variants(q: &Query, tables: &[TableData]) -> Vec<(&'static str, String)> {
    let mut v = vec![];
    match q {
        Query::Select { table, proj, distinct, pred, order, limit } => {
            let ty = |_: u8, c: u8| tables[*table as usize].cols[c as usize].1;
            if let Some(p) = pred {
                let mk = |p2: E| Query::Select { table: *table, proj: proj.clone(), distinct: *distinct, pred: Some(p2), order: order.clone(), limit: *limit }.sql(tables, false);
                v.push(("noindex", mk(deindex(p, &ty))));
                let c = p.commuted();
                if &c != p {
                    v.push(("commuted", mk(c)));
                }
            }
        }
        Query::Agg { table, group, aggs, pred } => {
            let ty = |_: u8, c: u8| tables[*table as usize].cols[c as usize].1;
            if let Some(p) = pred {
                v.push(("noindex", Query::Agg { table: *table, group: group.clone(), aggs: aggs.clone(), pred: Some(deindex(p, &ty)) }.sql(tables, false)));
            }
        }
        Query::Join3 { tables: ts, kinds, ons, pred } => {
            let ty = |t: u8, c: u8| tables[ts[t as usize] as usize].cols[c as usize].1;
            let d_ons = [ons[0].as_ref().map(|p| deindex(p, &ty)), ons[1].as_ref().map(|p| deindex(p, &ty))];
            v.push(("noindex", Query::Join3 { tables: *ts, kinds: *kinds, ons: d_ons, pred: pred.as_ref().map(|p| deindex(p, &ty)) }.sql(tables, false)));
            if kinds.iter().all(|k| matches!(k, JoinKind::Inner)) {
                // all conditions in WHERE over cross joins: the optimizer is free to pick any join order
                let mut all: Option<E> = None;
                for e in ons.iter().flatten().chain(pred.iter()) {
                    all = Some(match all {
                        None => e.clone(),
                        Some(a) => E::And(Box::new(a), Box::new(e.clone())),
                    });
                }
                v.push(("on_to_where", Query::Join3 { tables: *ts, kinds: [JoinKind::Cross, JoinKind::Cross], ons: [None, None], pred: all }.sql(tables, false)));
            }
        }
        Query::Union { .. } | Query::AggOrdered { .. } => {}
        Query::Join { left, right, kind, on, pred } => {
            let ty = |t: u8, c: u8| if t == 0 { tables[*left as usize].cols[c as usize].1 } else { tables[*right as usize].cols[c as usize].1 };
            v.push(("swapped_join", join_sql(tables, *left, *right, *kind, on, pred, true)));
            let on2 = on.as_ref().map(|p| deindex(p, &ty));
            let pred2 = pred.as_ref().map(|p| deindex(p, &ty));
            v.push(("noindex", join_sql(tables, *left, *right, *kind, &on2, &pred2, false)));
            if matches!(kind, JoinKind::Inner) {
                if let Some(o) = on {
                    let all = match pred {
                        Some(p) => E::And(Box::new(o.clone()), Box::new(p.clone())),
                        None => o.clone(),
                    };
                    v.push(("on_to_where", join_sql(tables, *left, *right, JoinKind::Cross, &None, &Some(all.clone()), false)));
                    v.push(("where_to_on", join_sql(tables, *left, *right, JoinKind::Inner, &Some(all), &None, false)));
                }
            }
            let c_on = on.as_ref().map(|p| p.commuted());
            let c_pred = pred.as_ref().map(|p| p.commuted());
            if &c_on != on || &c_pred != pred {
                v.push(("commuted", join_sql(tables, *left, *right, *kind, &c_on, &c_pred, false)));
            }
        }
    }
    v
}

fn run_rows(db: &mut Db, sql: &str) -> Result<Vec<Vec<Val>>, Option<String>> {
    match db.exec(sql) {
        Ok(Out::Rows { rows, .. }) => Ok(rows),
        Ok(o) => Err(Some(format!("{o:?}"))),
        Err(crate::dbx::Err::Panic(p)) => Err(Some(format!("PANIC {p}"))),
        Err(e) => Err(Some(e.text())),
    }
}

pub fn run_case(c: &PCase) -> CaseOut {
    let mut out = CaseOut::pass();
    out.evals = 0;
    let excluded: BTreeMap<String, String> = c.excluded.iter().map(|t| (t.clone(), String::new())).collect();
    let mut it = match Interp::new(c.cfg, excluded) {
        Ok(i) => i,
        Err(f) => return CaseOut::fail(f),
    };
    it.sequential = true;
    it.tolerate_ww_conflict = true;
    for (i, st) in c.steps.iter().enumerate() {
        if !it.db.usable() {
            break;
        }
        if let Some(f) = it.step(i, st) {
            out.labels.push(format!("abandoned.history.{}", f.clause.split('.').next().unwrap_or("")));
            out.evals = 1;
            let _ = crate::panics::take();
            return out;
        }
    }
    let open: Vec<u8> = it.txns.keys().copied().collect();
    for s in open {
        if it.step(c.steps.len(), &Step::DropSession(s)).is_some() {
            out.labels.push("abandoned.history.close".into());
            out.evals = 1;
            let _ = crate::panics::take();
            return out;
        }
    }
    for t in &it.skipped {
        out.excluded.push(t.clone());
    }
    let tables = tables_of(&it.model.committed);
    if tables.is_empty() || !it.db.usable() {
        out.labels.push("no_tables_left".into());
        out.evals = 1;
        return out;
    }
    let hist_tags: Vec<String> = it.tags.iter().filter(|t| t.starts_with("ddl.create_index") || t.starts_with("txn.") || t.starts_with("admin.") || *t == "delete" || *t == "update" || *t == "failed_stmt").cloned().collect();
    let mut hist_tags = hist_tags;
    // a committed row whose DELETE did not commit and whose unique key was also written by a transaction that did
    // not commit (DELETE + re-INSERT of the key, rolled back): see finding F-C06-index-entry-lost-after-rolled-back-reinsert
    for (name, t) in &it.model.committed.tables {
        for (rid, row) in &t.rows {
            if it.poisoned_rows.contains(&(name.clone(), *rid)) {
                for ui in 0..t.def.uniques.len() {
                    if let Some(k) = Interp::key_of(&t.def, ui, row) {
                        if it.poisoned_keys.contains(&(name.clone(), ui, k)) && !hist_tags.iter().any(|t| t == "index.key_deleted_and_rewritten_by_noncommitted_txn") {
                            hist_tags.push("index.key_deleted_and_rewritten_by_noncommitted_txn".into());
                        }
                    }
                }
            }
        }
    }
    let case_hash = hash_json(&c.steps);
    let transcript = it.transcript.clone();
    let uniques: Vec<(usize, usize)> = it.model.committed.tables.values().enumerate().flat_map(|(ti, t)| t.def.uniques.iter().flat_map(move |u| u.iter().map(move |c| (ti, *c)).collect::<Vec<_>>()).collect::<Vec<_>>()).collect();
    let db = &mut it.db;
    let ctx_text = |tables: &[TableData]| format!("tables: {}\n  history:\n    {}", tables.iter().map(|t| format!("{}{}", t.name, c05::show_rows(&t.rows))).collect::<Vec<_>>().join(" "), transcript.iter().rev().take(14).rev().cloned().collect::<Vec<_>>().join("\n    "));

    // the statements to check: generated queries plus index probes
    let mut work: Vec<(Query, Vec<String>)> = vec![];
    for (ti, ci) in &uniques {
        let t = &tables[*ti];
        if !matches!(t.cols[*ci].1, Ty::Int | Ty::BigInt) {
            continue;
        }
        let mut keys: Vec<i64> = t.rows.iter().filter_map(|r| if let Val::Int(k) = r[*ci] { Some(k) } else { None }).collect();
        keys.sort();
        keys.dedup();
        let proj: Vec<E> = (0..t.cols.len()).map(|c| E::Col(0, c as u8)).collect();
        let mut probes: Vec<E> = vec![];
        let col = || Box::new(E::Col(0, *ci as u8));
        let lit = |k: i64| Box::new(E::Lit(Val::Int(k)));
        for k in keys.iter().take(10) {
            probes.push(E::Cmp(CmpOp::Eq, col(), lit(*k)));
        }
        let lo = keys.first().copied().unwrap_or(0);
        let hi = keys.last().copied().unwrap_or(0);
        probes.push(E::Cmp(CmpOp::Eq, col(), lit(lo.saturating_sub(1).max(-1000))));
        probes.push(E::Cmp(CmpOp::Eq, col(), lit(hi.saturating_add(1).min(1 << 30))));
        let mid = keys.get(keys.len() / 2).copied().unwrap_or(0);
        probes.push(E::And(Box::new(E::Cmp(CmpOp::Gt, col(), lit(lo))), Box::new(E::Cmp(CmpOp::Le, col(), lit(mid)))));
        probes.push(E::Cmp(CmpOp::Ge, col(), lit(mid)));
        probes.push(E::Cmp(CmpOp::Le, col(), lit(mid)));
        probes.push(E::Cmp(CmpOp::Lt, col(), lit(hi)));
        for p in probes {
            let q = Query::Select { table: *ti as u8, proj: proj.clone(), distinct: false, pred: Some(p), order: vec![], limit: None };
            let mut tags = c05::features_of(&Resolved::Q(q.clone()));
            tags.retain(|t| t.starts_with("sql."));
            tags.push("q.index_probe".into());
            work.push((q, tags));
        }
    }
    for aq in &c.queries {
        if let Resolved::Q(q) = c05::resolve_q(aq, &tables) {
            let tags = c05::features_of(&Resolved::Q(q.clone()));
            work.push((q, tags));
        }
    }

    let mut as_written: Vec<(String, QOut, String)> = vec![];
    'q: for (qi, (q, qtags)) in work.iter().enumerate() {
        if !db.usable() {
            break;
        }
        let mut tags = qtags.clone();
        tags.extend(hist_tags.iter().cloned());
        if let Some(t) = tags.iter().find(|t| c.excluded.contains(t)) {
            out.excluded.push(t.clone());
            continue;
        }
        let want = match q.eval(&tables) {
            Ok(w) if !q.undefined_somewhere(&tables) => w,
            _ => {
                out.labels.push("discarded.implementation_defined".into());
                continue;
            }
        };
        let sql = q.sql(&tables, false);
        out.evals += 1;
        let fail = |clause: &str, detail: String| Failure::new(clause, detail).with_tags(tags.clone());
        let rows = match run_rows(db, &sql) {
            Ok(r) => r,
            Err(None) => break,
            // a query that panics as written is C16's business
            Err(Some(e)) if e.starts_with("PANIC") => break,
            Err(Some(e)) => {
                out.failure = Some(fail("as_written.rejected", format!("`{sql}`: {e}\n  {}", ctx_text(&tables))));
                break;
            }
        };
        if let Err(why) = compare(&rows, &want) {
            out.failure = Some(fail("as_written.differs_from_reference", format!("`{sql}`: {why}\n  engine {}\n  model  {}\n  {}", c05::show_rows(&rows), c05::show_rows(&want.rows), ctx_text(&tables))));
            break;
        }
        let plan0 = db.explain(&sql).map(|p| strip_costs(&p)).unwrap_or_default();
        if plan0.contains("IndexScan") {
            out.labels.push("plan.index_scan".into());
        }
        for (name, vsql) in variants(q, &tables) {
            out.evals += 1;
            let vrows = match run_rows(db, &vsql) {
                Ok(r) => r,
                Err(None) => break 'q,
                Err(Some(e)) => {
                    out.failure = Some(fail(&format!("variant.{name}.rejected"), format!("as written `{sql}` runs, the rewrite `{vsql}` fails: {e}\n  {}", ctx_text(&tables))));
                    break 'q;
                }
            };
            if let Err(why) = compare(&vrows, &want) {
                let plan1 = db.explain(&vsql).map(|p| strip_costs(&p)).unwrap_or_default();
                out.failure = Some(fail(&format!("variant.{name}.differs"), format!("`{sql}` and its rewrite `{vsql}` return different rows: {why}\n  as written {}\n  rewrite    {}\n  plan as written:\n{plan0}\n  plan of rewrite:\n{plan1}\n  {}", c05::show_rows(&rows), c05::show_rows(&vrows), ctx_text(&tables))));
                break 'q;
            }
            let plan1 = db.explain(&vsql).map(|p| strip_costs(&p)).unwrap_or_default();
            if plan1 != plan0 && !plan1.is_empty() {
                out.nontrivial.push(hash_of(&(case_hash, qi, name)));
                out.labels.push(format!("plans_differ.{name}"));
            }
        }
        as_written.push((sql, want, plan0));
    }
    if out.failure.is_none() && c.analyze && db.usable() {
        match db.analyze() {
            Ok(()) => {
                for (qi, (sql, want, plan0)) in as_written.iter().enumerate() {
                    out.evals += 1;
                    let rows = match run_rows(db, sql) {
                        Ok(r) => r,
                        Err(None) => break,
                        Err(Some(e)) => {
                            out.failure = Some(Failure::new("variant.after_analyze.rejected", format!("`{sql}` ran before ANALYZE, fails after it: {e}\n  {}", ctx_text(&tables))).with_tags(hist_tags.clone()));
                            break;
                        }
                    };
                    if let Err(why) = compare(&rows, want) {
                        let plan1 = db.explain(sql).map(|p| strip_costs(&p)).unwrap_or_default();
                        out.failure = Some(Failure::new("variant.after_analyze.differs", format!("`{sql}` returns different rows after ANALYZE: {why}\n  after ANALYZE {}\n  reference     {}\n  plan before:\n{plan0}\n  plan after:\n{plan1}\n  {}", c05::show_rows(&rows), c05::show_rows(&want.rows), ctx_text(&tables))).with_tags(hist_tags.clone()));
                        break;
                    }
                    let plan1 = db.explain(sql).map(|p| strip_costs(&p)).unwrap_or_default();
                    if &plan1 != plan0 && !plan1.is_empty() {
                        out.nontrivial.push(hash_of(&(case_hash, qi, "after_analyze")));
                        out.labels.push("plans_differ.after_analyze".into());
                    }
                }
            }
            Err(crate::dbx::Err::Panic(_)) => {}
            Err(e) => {
                out.failure = Some(Failure::new("analyze_failed", e.text()).with_tags(hist_tags.clone()));
            }
        }
    }
    for t in &hist_tags {
        out.labels.push(format!("history.{t}"));
    }
    if out.evals == 0 {
        out.evals = 1;
    }
    let _ = crate::panics::take();
    out
}

fn hist_opts() -> GenOpts {
    GenOpts {
        max_steps: 14,
        sessions: 1,
        ddl: true,
        drop_table: false,
        create_index: true,
        update: true,
        update_indexed: true,
        delete: true,
        bad: true,
        batch: false,
        rollback: true,
        drop_session: false,
        flush: false,
        vacuum: true,
        reopen: false,
        big_values: false,
        bool_cols: true,
        double_cols: true,
        defaults: false,
        constraints: true,
        composite_keys: true,
        alter: false,
        alter_col: false,
        bystander: true,
        w_select: 1,
        w_begin: 2,
        max_rows_per_insert: 4,
    }
}

pub fn simpler(c: &PCase) -> Vec<PCase> {
    let mut v = vec![];
    if c.analyze {
        v.push(PCase { analyze: false, ..c.clone() });
    }
    for i in 0..c.queries.len() {
        let mut d = c.clone();
        d.queries.remove(i);
        v.push(d);
    }
    for i in (0..c.steps.len()).rev() {
        let mut d = c.clone();
        d.steps.remove(i);
        v.push(d);
    }
    for (qi, q) in c.queries.iter().enumerate() {
        for q2 in c05::aq_variants(q) {
            let mut d = c.clone();
            d.queries[qi] = q2;
            v.push(d);
        }
    }
    v
}

pub fn run_shard(ctx: &mut ShardCtx) {
    if ctx.shard == 0 {
        ctx.witnesses(&replay);
    }
    let n = ctx.share(ctx.tier.pick(12_000, 600_000));
    let excluded: Vec<String> = ctx.excludes.keys().cloned().collect();
    let strat = (gen_history(&hist_opts()), prop::collection::vec(c05::gen_aq(), 6..7), prop::bool::weighted(0.5)).prop_map(move |(steps, queries, analyze)| PCase { cfg: Cfg::default(), steps, queries, analyze, excluded: excluded.clone() });
    ctx.search_with("plans", strat, n, &run_case, Some(&simpler));
}

pub fn replay(kind: &str, case: &Value) -> CaseOut {
    match kind {
        "plans" => match from_value::<PCase>(case) {
            Ok(c) => run_case(&c),
            Err(e) => CaseOut::fail(Failure::new("bad_replay", e)),
        },
        "sql_expect" => c05::replay(kind, case),
        _ => CaseOut::fail(Failure::new("bad_replay", format!("unknown kind {kind}"))),
    }
}
