//! vcheck: supervisor + worker + replay for the AxmosDB property checks.
//!   vcheck run <Cnn> <quick|thorough>
//!   vcheck worker <Cnn> <tier> <seed> <shard> <nshards> <outfile>
//!   vcheck replay <file>
//! Exit codes: 0 held (known findings only), 1 violation, 2 inconclusive / infrastructure.


use vcheck::engine::*;
#[allow(unused_imports)]
use vcheck::{audit, crashsim, dbx, engine, panics, props, qmodel, scratch, sqlmodel, workload};
use serde_json::{Value, json};
use std::collections::BTreeSet;
use std::io::Write;
use std::path::{Path, PathBuf};
use std::process::{Command, Stdio};
use std::time::{Duration, Instant};

const HANG_EXIT: i32 = 3;
const NSHARDS: u32 = 16;

fn hang_limit() -> Duration {
    Duration::from_secs(std::env::var("VERIF_HANG_S").ok().and_then(|s| s.parse().ok()).unwrap_or(20))
}

fn seed_from_env() -> u64 {
    std::env::var("VERIF_SEED").ok().and_then(|s| s.trim().parse::<i128>().ok()).map(|v| v as u64).unwrap_or(0)
}

fn set_mem_limit() {
    let gb: u64 = std::env::var("VERIF_MEM_GB").ok().and_then(|s| s.parse().ok()).unwrap_or(6);
    unsafe {
        let lim = libc::rlimit { rlim_cur: gb << 30, rlim_max: gb << 30 };
        libc::setrlimit(libc::RLIMIT_AS, &lim);
    }
}

/// Removes scratch directories of processes that no longer exist.
fn sweep_stale_scratch() {
    if let Ok(rd) = std::fs::read_dir("/dev/shm") {
        for e in rd.flatten() {
            let name = e.file_name().to_string_lossy().to_string();
            if let Some(pid) = name.strip_prefix("axverif-").and_then(|p| p.parse::<u32>().ok()) {
                if !Path::new(&format!("/proc/{pid}")).exists() {
                    let _ = std::fs::remove_dir_all(e.path());
                }
            }
        }
    }
}

fn main() {
    let args: Vec<String> = std::env::args().collect();
    let code = match args.get(1).map(|s| s.as_str()) {
        Some("run") => supervisor(&args[2..]),
        Some("worker") => worker(&args[2..]),
        Some("replay") => replay(&args[2..]),
        Some("fuzz-artifact") => fuzz_artifact(&args[2..]),
        Some("fuzz-corpus") => fuzz_corpus(&args[2..]),
        Some("list") => {
            for p in props::registry() {
                println!("{}", p.id);
            }
            0
        }
        _ => {
            eprintln!("usage: vcheck run <Cnn> <quick|thorough> | replay <file> | list");
            2
        }
    };
    std::process::exit(code);
}

fn find_prop(id: &str) -> Option<PropertyInfo> {
    props::registry().into_iter().find(|p| p.id == id)
}

// ------------------------------------------------------------------------------------------
// watchdog (worker and replay processes)
// ------------------------------------------------------------------------------------------

fn start_watchdog(hang_file: Option<PathBuf>) {
    let limit = hang_limit();
    std::thread::Builder::new()
        .name("vcheck-watchdog".into())
        .spawn(move || {
            loop {
                std::thread::sleep(Duration::from_millis(250));
                let cur = CURRENT_CALL.lock().unwrap_or_else(|e| e.into_inner()).clone();
                if let Some((t0, desc)) = cur {
                    if t0.elapsed() > limit {
                        // classify: blocked (no CPU progress) or busy
                        let cpu0 = proc_cpu_ticks();
                        std::thread::sleep(Duration::from_millis(1000));
                        let cpu1 = proc_cpu_ticks();
                        let busy = cpu1.saturating_sub(cpu0) > 20;
                        if busy && t0.elapsed() < limit * 6 {
                            continue;
                        }
                        // the case that is running (persisted before it started), so that the supervisor can write a replay
                        let cur: Option<Value> = std::fs::read_to_string(scratch::base_for(std::process::id()).join("cur.json")).ok().and_then(|s| serde_json::from_str(&s).ok());
                        let rec = json!({"desc": desc, "busy": busy, "elapsed_s": t0.elapsed().as_secs_f64(), "cur": cur});
                        if let Some(p) = &hang_file {
                            let _ = std::fs::write(p, rec.to_string());
                        }
                        eprintln!("[watchdog] call outstanding for {:?} (busy={busy}): {}", t0.elapsed(), truncate(&desc, 600));
                        scratch::cleanup_pid(std::process::id());
                        std::process::exit(HANG_EXIT);
                    }
                }
            }
        })
        .expect("spawn watchdog");
}

fn proc_cpu_ticks() -> u64 {
    let s = std::fs::read_to_string("/proc/self/stat").unwrap_or_default();
    let after = s.rsplit(')').next().unwrap_or("");
    let f: Vec<&str> = after.split_whitespace().collect();
    // fields after ')' : state(0) ... utime is field 14 overall => index 11 here, stime index 12
    let u: u64 = f.get(11).and_then(|x| x.parse().ok()).unwrap_or(0);
    let s2: u64 = f.get(12).and_then(|x| x.parse().ok()).unwrap_or(0);
    u + s2
}

// ------------------------------------------------------------------------------------------
// worker
// ------------------------------------------------------------------------------------------

fn worker(a: &[String]) -> i32 {
    if a.len() < 6 {
        eprintln!("worker: bad arguments");
        return 2;
    }
    let Some(p) = find_prop(&a[0]) else { return 2 };
    let tier = Tier::parse(&a[1]).unwrap_or(Tier::Quick);
    let seed: u64 = a[2].parse().unwrap_or(0);
    let shard: u32 = a[3].parse().unwrap_or(0);
    let nshards: u32 = a[4].parse().unwrap_or(1);
    let out = PathBuf::from(&a[5]);
    panics::install();
    set_mem_limit();
    start_watchdog(Some(out.with_extension("hang")));
    let budget = Duration::from_secs(tier.pick(p.budget_s.0, p.budget_s.1));
    let mut ctx = ShardCtx::new(p.id, tier, seed, shard, nshards, budget);
    (p.run_shard)(&mut ctx);
    let s = serde_json::to_string(&ctx.res).unwrap();
    std::fs::write(&out, s).expect("write shard result");
    scratch::cleanup_pid(std::process::id());
    0
}

// ------------------------------------------------------------------------------------------
// replay
// ------------------------------------------------------------------------------------------

fn replay(a: &[String]) -> i32 {
    let Some(path) = a.first() else {
        eprintln!("replay: missing file");
        return 2;
    };
    let r: Replay = match std::fs::read_to_string(path).map_err(|e| e.to_string()).and_then(|s| serde_json::from_str(&s).map_err(|e| e.to_string())) {
        Ok(r) => r,
        Err(e) => {
            eprintln!("cannot read replay {path}: {e}");
            return 2;
        }
    };
    let Some(p) = find_prop(&r.property) else {
        eprintln!("unknown property {}", r.property);
        return 2;
    };
    panics::install();
    set_mem_limit();
    start_watchdog(None);
    call_begin(|| format!("replay {path}"));
    let out = (p.replay)(&r.kind, &r.case);
    call_end();
    scratch::cleanup_pid(std::process::id());
    match out.failure {
        Some(f) => {
            println!("FAIL clause={} tags={:?}\n  {}", f.clause, f.tags, f.detail);
            println!("VIOLATION property={} replay={}", r.property, path);
            1
        }
        None => {
            println!("PASS property={} replay={}", r.property, path);
            0
        }
    }
}


// ------------------------------------------------------------------------------------------
// coverage-guided stage (libFuzzer through cargo-fuzz), thorough tier of C16 and C20
// ------------------------------------------------------------------------------------------

fn fuzz_target_for(id: &str) -> Option<&'static str> {
    match id {
        "C16" => Some("sql_exec"),
        "C20" => Some("wire_decode"),
        _ => None,
    }
}

/// The case a fuzzer input stands for, as (kind, case).
fn fuzz_case(id: &str, data: &[u8]) -> Option<(&'static str, Value)> {
    match id {
        "C16" => {
            let ex: Vec<String> = Findings::load().excludes("C16").keys().cloned().collect();
            props::c16::case_from_fuzz_bytes(data, &ex).map(|c| ("inputs", serde_json::to_value(c).unwrap()))
        }
        "C20" if !data.is_empty() => Some(("garbage", serde_json::to_value(props::c20::Garbage { target: data[0] % 5, bytes: data[1..].to_vec() }).unwrap())),
        _ => None,
    }
}

/// `vcheck fuzz-corpus <Cnn> <dir>`: writes the seed inputs of the property's fuzz target.
fn fuzz_corpus(a: &[String]) -> i32 {
    let (Some(id), Some(dir)) = (a.first(), a.get(1)) else { return 2 };
    let seeds: Vec<Vec<u8>> = match id.as_str() {
        "C16" => props::c16::fuzz_seed_corpus(),
        "C20" => props::c20::fuzz_seed_corpus(),
        _ => vec![],
    };
    let _ = std::fs::create_dir_all(dir);
    if id == "C16" {
        let _ = std::fs::write(Path::new(dir).join("../dict.txt"), props::c16::fuzz_dictionary());
    }
    for (i, s) in seeds.iter().enumerate() {
        let _ = std::fs::write(Path::new(dir).join(format!("seed-{i:03}")), s);
    }
    println!("{} seed inputs", seeds.len());
    0
}

/// `vcheck fuzz-artifact <Cnn> <file>`: decodes a libFuzzer artifact into the case it stands for, runs it here and
/// classifies the outcome. Exit 0: passes or fails in the way an open finding describes; 1: fails (replay written).
fn fuzz_artifact(a: &[String]) -> i32 {
    let (Some(id), Some(file)) = (a.first(), a.get(1)) else { return 2 };
    let Some(p) = find_prop(id) else { return 2 };
    let Ok(data) = std::fs::read(file) else { return 2 };
    let Some((kind, case)) = fuzz_case(id, &data) else {
        println!("PASS (input too short to stand for a case)");
        return 0;
    };
    let mut r = Replay { property: id.clone(), kind: kind.into(), case: case.clone(), failure: None, tier: Some("fuzz".into()), seed: None, shard: None, shrunk_from: None, note: Some(format!("decoded from the libFuzzer artifact {file}")) };
    let path = write_replay(&r);
    println!("REPLAY {}", path.display());
    panics::install();
    set_mem_limit();
    start_watchdog(None);
    call_begin(|| format!("fuzz artifact {file}"));
    let out = (p.replay)(kind, &case);
    call_end();
    scratch::cleanup_pid(std::process::id());
    match out.failure {
        None => {
            println!("PASS");
            0
        }
        Some(f) => {
            if let Some(k) = Findings::load().match_open(id, &f) {
                println!("KNOWN {}", k.id);
                return 0;
            }
            println!("FAIL clause={} tags={:?}\n  {}", f.clause, f.tags, f.detail);
            r.failure = Some(f);
            let _ = std::fs::write(&path, serde_json::to_string_pretty(&r).unwrap());
            1
        }
    }
}

struct FuzzOutcome {
    stats: Value,
    violations: Vec<ViolationRec>,
    infra: Vec<String>,
    execs: u64,
}

/// Builds the property's libFuzzer target against /repo's working tree, runs it in fork mode for `secs` seconds
/// from the seed corpus, and re-runs every artifact it leaves in a fresh process.
fn fuzz_stage(id: &str, target: &str, seed: u64, secs: u64, jobs: usize, exe: &Path) -> FuzzOutcome {
    let mut o = FuzzOutcome { stats: json!({}), violations: vec![], infra: vec![], execs: 0 };
    let home = verif_dir();
    let hdir = Path::new(&home).join("harness");
    let work = Path::new(&home).join("out/fuzz").join(id);
    let _ = std::fs::remove_dir_all(&work);
    let corpus = work.join("corpus");
    let arts = work.join("artifacts");
    let _ = std::fs::create_dir_all(&corpus);
    let _ = std::fs::create_dir_all(&arts);
    let t0 = Instant::now();
    let build = Command::new("cargo").args(["+nightly", "fuzz", "build", "-s", "none", target]).current_dir(&hdir).env("CARGO_NET_OFFLINE", "true").env("RUSTFLAGS", "").stdin(Stdio::null()).output();
    match build {
        Ok(b) if b.status.success() => {}
        Ok(b) => {
            let e = String::from_utf8_lossy(&b.stderr);
            let tail: Vec<&str> = e.lines().rev().take(12).collect();
            o.infra.push(format!("fuzz stage: `cargo +nightly fuzz build {target}` failed: {}", tail.into_iter().rev().collect::<Vec<_>>().join(" | ")));
            o.stats = json!({"skipped": o.infra.clone()});
            return o;
        }
        Err(e) => {
            o.infra.push(format!("fuzz stage: cannot run cargo fuzz: {e}"));
            o.stats = json!({"skipped": o.infra.clone()});
            return o;
        }
    }
    let build_s = t0.elapsed().as_secs_f64();
    let _ = Command::new(exe).args(["fuzz-corpus", id]).arg(&corpus).stdout(Stdio::null()).status();
    let seeds = std::fs::read_dir(&corpus).map(|d| d.count()).unwrap_or(0);
    let log_path = work.join("fuzz.log");
    let log = std::fs::File::create(&log_path).expect("fuzz log");
    let log2 = log.try_clone().expect("log clone");
    // libFuzzer: seed 0 means "random"
    let lf_seed = (seed % 0x7fff_ffff) + 1;
    let st = Command::new("cargo")
        .args(["+nightly", "fuzz", "run", "-s", "none", target])
        .arg(&corpus)
        .arg("--")
        .args([
            format!("-fork={}", jobs.max(1)),
            format!("-max_total_time={secs}"),
            format!("-seed={lf_seed}"),
            "-timeout=60".to_string(),
            "-rss_limit_mb=6144".to_string(),
            "-len_control=0".to_string(),
            "-max_len=4096".to_string(),
            "-ignore_crashes=0".to_string(),
            "-ignore_timeouts=0".to_string(),
            "-ignore_ooms=0".to_string(),
            format!("-artifact_prefix={}/", arts.display()),
        ])
        .args(if work.join("dict.txt").exists() { vec![format!("-dict={}", work.join("dict.txt").display())] } else { vec![] })
        .current_dir(&hdir)
        .env("CARGO_NET_OFFLINE", "true")
        .env("VERIF_HOME", &home)
        .env("RUST_BACKTRACE", "0")
        .stdin(Stdio::null())
        .stdout(Stdio::null())
        .stderr(Stdio::from(log2))
        .status();
    drop(log);
    let text = std::fs::read_to_string(&log_path).unwrap_or_default();
    // fork mode progress lines: "#123: cov: 10 ft: 20 corp: 5 exec/s 7 oom/timeout/crash: 0/0/0 time: 9s job: 3 dft_time: 0"
    let mut last: Option<(u64, u64, u64, u64, String)> = None;
    for l in text.lines() {
        let Some(rest) = l.strip_prefix('#') else { continue };
        let Some((n, tail)) = rest.split_once(": cov: ") else { continue };
        let Ok(n) = n.trim().parse::<u64>() else { continue };
        let num_after = |key: &str| -> u64 { tail.split(key).nth(1).and_then(|x| x.trim().split_whitespace().next()).and_then(|x| x.parse().ok()).unwrap_or(0) };
        let cov = tail.split_whitespace().next().and_then(|x| x.parse().ok()).unwrap_or(0);
        let otc = tail.split("oom/timeout/crash: ").nth(1).and_then(|x| x.split_whitespace().next()).unwrap_or("").to_string();
        last = Some((n, cov, num_after("ft: "), num_after("corp: "), otc));
    }
    let mut artifacts: Vec<PathBuf> = std::fs::read_dir(&arts).map(|d| d.filter_map(|e| e.ok().map(|e| e.path())).collect()).unwrap_or_default();
    artifacts.sort();
    let (execs, cov, ft, corp, otc) = last.clone().unwrap_or((0, 0, 0, 0, String::new()));
    o.execs = execs;
    if last.is_none() {
        o.infra.push(format!("fuzz stage: no progress line in {} (exit {:?})", log_path.display(), st.as_ref().ok().and_then(|s| s.code())));
    }
    let mut reproduced = 0;
    let mut known = 0;
    for a in artifacts.iter().take(8) {
        let outp = Command::new(exe).args(["fuzz-artifact", id]).arg(a).env("RUST_BACKTRACE", "0").stdin(Stdio::null()).output();
        let Ok(outp) = outp else { continue };
        let so = String::from_utf8_lossy(&outp.stdout).to_string();
        let replay = so.lines().find_map(|l| l.strip_prefix("REPLAY ")).unwrap_or("").to_string();
        match outp.status.code() {
            Some(0) => {
                if so.contains("KNOWN ") {
                    known += 1;
                } else {
                    o.infra.push(format!("fuzz stage: artifact {} did not reproduce in a fresh process", a.display()));
                }
            }
            Some(1) => {
                reproduced += 1;
                let clause = so.lines().find_map(|l| l.strip_prefix("FAIL clause=")).and_then(|l| l.split_whitespace().next()).unwrap_or("fuzz_failure").to_string();
                let detail = so.lines().skip_while(|l| !l.starts_with("FAIL")).skip(1).take(12).collect::<Vec<_>>().join("\n");
                o.violations.push(ViolationRec { replay, clause, detail, tags: vec!["stage.fuzz".into()] });
            }
            other => {
                // the case kills or hangs the process that runs it
                reproduced += 1;
                o.violations.push(ViolationRec { replay, clause: "process_died".into(), detail: format!("replaying the fuzzer artifact {} ended with {:?}", a.display(), other), tags: vec!["stage.fuzz".into()] });
            }
        }
    }
    let notes = o.infra.clone();
    o.stats = json!({
        "notes": notes,
        "engine": "libFuzzer (cargo-fuzz, fork mode, sanitizer none: the engine installs jemalloc as global allocator)",
        "target": format!("harness/fuzz/fuzz_targets/{target}.rs"),
        "build_s": build_s,
        "seconds": secs,
        "jobs": jobs,
        "libfuzzer_seed": lf_seed,
        "seed_corpus_files": seeds,
        "executions": execs,
        "coverage_edges": cov,
        "features": ft,
        "corpus_units_at_end": corp,
        "oom_timeout_crash": otc,
        "artifacts": artifacts.len(),
        "artifacts_reproduced_as_violations": reproduced,
        "artifacts_matching_open_findings": known,
        "note": "campaigns are pinned only approximately by -seed in fork mode; the saved replay file is the reproducible unit",
    });
    o
}

// ------------------------------------------------------------------------------------------
// supervisor
// ------------------------------------------------------------------------------------------

#[derive(Debug, PartialEq)]
enum Isolated {
    Passed,
    Failed,
    Died,
    Hung,
}

/// Runs `vcheck replay <file>` in a child process, with a wall-clock cap.
fn run_isolated(exe: &Path, file: &Path) -> Isolated {
    let child = Command::new(exe).arg("replay").arg(file).env("RUST_BACKTRACE", "0").stdin(Stdio::null()).stdout(Stdio::null()).stderr(Stdio::null()).spawn();
    let Ok(mut child) = child else { return Isolated::Died };
    let deadline = Instant::now() + hang_limit() * 8;
    loop {
        match child.try_wait() {
            Ok(Some(s)) => {
                scratch::cleanup_pid(child.id());
                return match s.code() {
                    Some(0) => Isolated::Passed,
                    Some(1) => Isolated::Failed,
                    Some(HANG_EXIT) => Isolated::Hung,
                    _ => Isolated::Died,
                };
            }
            Ok(None) => {
                if Instant::now() > deadline {
                    let _ = child.kill();
                    let _ = child.wait();
                    scratch::cleanup_pid(child.id());
                    return Isolated::Hung;
                }
                std::thread::sleep(Duration::from_millis(20));
            }
            Err(_) => return Isolated::Died,
        }
    }
}

fn supervisor(a: &[String]) -> i32 {
    let Some(id) = a.first() else {
        eprintln!("run: missing property id");
        return 2;
    };
    let Some(p) = find_prop(id) else {
        eprintln!("unknown property {id}");
        return 2;
    };
    let tier = a
        .get(1)
        .and_then(|s| Tier::parse(s))
        .or_else(|| std::env::var("VERIF_TIER").ok().and_then(|s| Tier::parse(&s)))
        .unwrap_or(Tier::Quick);
    let seed = seed_from_env();
    let t0 = Instant::now();
    sweep_stale_scratch();
    let exe = std::env::current_exe().expect("current_exe");
    let nshards = NSHARDS.min(p.max_shards).max(1);
    let parallel: usize = std::env::var("VERIF_JOBS").ok().and_then(|s| s.parse().ok()).unwrap_or_else(|| {
        std::thread::available_parallelism().map(|n| n.get()).unwrap_or(4)
    });
    let outdir = Path::new(&verif_dir()).join("out/run").join(format!("{}-{}-{}", p.id, tier.name(), std::process::id()));
    let _ = std::fs::remove_dir_all(&outdir);
    std::fs::create_dir_all(&outdir).expect("mkdir out");
    let budget = Duration::from_secs(tier.pick(p.budget_s.0, p.budget_s.1));
    let hard_deadline = t0 + budget + hang_limit() * 8 + Duration::from_secs(30);

    struct Child {
        shard: u32,
        child: std::process::Child,
        out: PathBuf,
    }
    let mut pending: Vec<u32> = (0..nshards).rev().collect();
    let mut running: Vec<Child> = vec![];
    let mut merged = ShardResult::default();
    let mut infra: Vec<String> = vec![];
    let mut hangs: Vec<(u32, Value, Option<Value>)> = vec![];
    let mut deaths: Vec<(u32, String, Option<Value>)> = vec![];

    loop {
        while running.len() < parallel {
            let Some(shard) = pending.pop() else { break };
            let out = outdir.join(format!("shard{shard}.json"));
            let log = std::fs::File::create(outdir.join(format!("shard{shard}.log"))).expect("log");
            let log2 = log.try_clone().expect("log clone");
            let child = Command::new(&exe)
                .args(["worker", p.id, tier.name(), &seed.to_string(), &shard.to_string(), &nshards.to_string()])
                .arg(&out)
                .env("RUST_BACKTRACE", "0")
                .stdin(Stdio::null())
                .stdout(Stdio::from(log))
                .stderr(Stdio::from(log2))
                .spawn()
                .expect("spawn worker");
            running.push(Child { shard, child, out });
        }
        if running.is_empty() {
            break;
        }
        std::thread::sleep(Duration::from_millis(20));
        let mut i = 0;
        while i < running.len() {
            let done = match running[i].child.try_wait() {
                Ok(Some(st)) => Some(st),
                Ok(None) => {
                    if Instant::now() > hard_deadline {
                        let _ = running[i].child.kill();
                        let _ = running[i].child.wait();
                        infra.push(format!("shard {} killed at the hard deadline", running[i].shard));
                        scratch::cleanup_pid(running[i].child.id());
                        running.remove(i);
                        continue;
                    }
                    None
                }
                Err(e) => {
                    infra.push(format!("wait failed: {e}"));
                    None
                }
            };
            if let Some(st) = done {
                let c = running.remove(i);
                let cur: Option<Value> = std::fs::read_to_string(scratch::base_for(c.child.id()).join("cur.json")).ok().and_then(|s| serde_json::from_str(&s).ok());
                scratch::cleanup_pid(c.child.id());
                match st.code() {
                    Some(0) => match std::fs::read_to_string(&c.out).ok().and_then(|s| serde_json::from_str::<ShardResult>(&s).ok()) {
                        Some(r) => merged.merge(r),
                        None => infra.push(format!("shard {} wrote no result", c.shard)),
                    },
                    Some(HANG_EXIT) => {
                        let v = std::fs::read_to_string(c.out.with_extension("hang")).ok().and_then(|s| serde_json::from_str(&s).ok()).unwrap_or(json!({}));
                        let cur = cur.or_else(|| v.get("cur").filter(|c| !c.is_null()).cloned());
                        hangs.push((c.shard, v, cur));
                    }
                    other => {
                        let tail = std::fs::read_to_string(outdir.join(format!("shard{}.log", c.shard))).unwrap_or_default();
                        let tail: String = tail.lines().rev().take(12).collect::<Vec<_>>().into_iter().rev().collect::<Vec<_>>().join("\n");
                        deaths.push((c.shard, format!("exit {:?} status {:?}; log tail:\n{}", other, st, tail), cur));
                    }
                }
            } else {
                i += 1;
            }
        }
    }

    // ---- coverage-guided stage ----
    if let Some(target) = fuzz_target_for(p.id) {
        let secs: u64 = std::env::var("VERIF_FUZZ_S").ok().and_then(|s| s.parse().ok()).unwrap_or(tier.pick(0, 900));
        if secs > 0 {
            let fo = fuzz_stage(p.id, target, seed, secs, parallel, &exe);
            merged.evaluations += fo.execs;
            merged.violations.extend(fo.violations);
            // trouble of the additional stage (no cargo-fuzz, an artifact that does not reproduce in a fresh process)
            // is reported, but does not void what the generated search established
            merged.infos.extend(fo.infra.iter().map(|l| format!("INFO: {l}")));
            merged.extra.insert("fuzz_stage".into(), fo.stats);
        }
    }

    // ---- verdict ----
    let mut exit = 0;
    let mut out = std::io::stdout().lock();
    // witnesses that kill or hang the process are replayed in a child
    for k in Findings::load().for_property(p.id) {
        if !k.isolate {
            continue;
        }
        let Some(w) = &k.witness else { continue };
        let wp = Path::new(&verif_dir()).join("findings").join(w);
        let r = run_isolated(&exe, &wp);
        merged.evaluations += 1;
        match (k.status.as_str(), r) {
            ("open", Isolated::Passed) => merged.infos.push(format!("INFO: witness of open finding {} no longer fails (stale entry?)", k.id)),
            ("open", _) => {
                merged.known_lines.insert(format!("KNOWN-FINDING: property={} {} [{}]", p.id, k.what, k.id));
                *merged.known_seen.entry(k.id.clone()).or_default() += 1;
            }
            ("fixed", Isolated::Passed) => {}
            ("fixed", how) => merged.violations.push(ViolationRec { replay: wp.display().to_string(), clause: k.clause.clone(), detail: format!("fixed finding {} returned ({how:?})", k.id), tags: vec![] }),
            _ => {}
        }
    }
    for l in &merged.infos {
        let _ = writeln!(out, "{}", if l.starts_with("INFO") { l.clone() } else { format!("INFO: {l}") });
    }
    for l in &merged.known_lines {
        let _ = writeln!(out, "{l}");
    }
    let mut seen: BTreeSet<String> = BTreeSet::new();
    for v in &merged.violations {
        if seen.insert(v.replay.clone()) {
            let _ = writeln!(out, "FAIL clause={} tags={:?}\n  {}", v.clause, v.tags, truncate(&v.detail, 1500));
            let _ = writeln!(out, "VIOLATION property={} replay={}", p.id, v.replay);
        }
        exit = 1;
    }
    for (shard, v, cur) in &hangs {
        let desc = v.get("desc").and_then(|d| d.as_str()).unwrap_or("?").to_string();
        if p.hang_is_violation {
            // the description carries the case; persist it as a note-only replay
            // the case that was running (persisted by the worker before it started) makes the replay executable;
            // without it the description is kept as a note-only replay
            let r = Replay {
                property: p.id.into(),
                kind: cur.as_ref().and_then(|c| c.get("kind")).and_then(|k| k.as_str()).unwrap_or("hang").to_string(),
                case: cur.as_ref().and_then(|c| c.get("case")).cloned().unwrap_or(json!({"desc": desc})),
                failure: Some(Failure::new("hang", format!("call did not return within {:?}: {}", hang_limit(), truncate(&desc, 800)))),
                tier: Some(tier.name().into()),
                seed: Some(seed),
                shard: Some(*shard),
                shrunk_from: None,
                note: Some("watchdog".into()),
            };
            let path = write_replay(&r);
            let _ = writeln!(out, "FAIL clause=hang\n  {}", truncate(&desc, 1500));
            let _ = writeln!(out, "VIOLATION property={} replay={}", p.id, path.display());
            exit = 1;
        } else {
            infra.push(format!("shard {shard}: watchdog: {}", truncate(&desc, 600)));
        }
    }
    for (di, (shard, d, cur)) in deaths.iter().enumerate() {
        // attribute the death to the case that was running and confirm it in a fresh process (first few only)
        let confirmed = cur.as_ref().filter(|_| di < 3).and_then(|c| {
            let r = Replay {
                property: p.id.into(),
                kind: c.get("kind").and_then(|k| k.as_str()).unwrap_or("?").to_string(),
                case: c.get("case").cloned().unwrap_or(Value::Null),
                failure: Some(Failure::new("process_died", d.clone())),
                tier: Some(tier.name().into()),
                seed: Some(seed),
                shard: Some(*shard),
                shrunk_from: None,
                note: Some("worker process died while running this case".into()),
            };
            let path = write_replay(&r);
            match run_isolated(&exe, &path) {
                Isolated::Passed => None,
                other => Some((path, other)),
            }
        });
        match confirmed {
            Some((path, how)) => {
                let _ = writeln!(out, "FAIL clause=process_died ({how:?})\n  {}", truncate(d, 800));
                let _ = writeln!(out, "VIOLATION property={} replay={}", p.id, path.display());
                exit = 1;
            }
            None => infra.push(format!("shard {shard} died (not reproduced in isolation): {d}")),
        }
    }
    for l in &infra {
        let _ = writeln!(out, "INCONCLUSIVE: {l}");
    }
    if exit == 0 && !infra.is_empty() {
        exit = 2;
    }

    // ---- evidence ----
    let wall = t0.elapsed().as_secs_f64();
    let total_cases = merged.cases.max(1);
    let labels: serde_json::Map<String, Value> = merged
        .labels
        .iter()
        .map(|(k, v)| (k.clone(), json!({"count": v, "fraction_of_cases": (*v as f64) / (total_cases as f64)})))
        .collect();
    let mut coverage = json!({
        "evaluations": merged.evaluations,
        "cases": merged.cases,
        "distinct_nontrivial": merged.nontrivial.len(),
        "rule": p.rule,
        "samples": merged.samples,
        "labels": labels,
        "excluded": merged.excluded,
        "excluded_tags": ShardCtx::new(p.id, tier, seed, 0, 1, Duration::from_secs(1)).excludes,
        "known_findings_seen": merged.known_seen,
        "budget_exhausted": merged.budget_exhausted,
        "shards": nshards,
        "inconclusive": infra,
    });
    if let Some(e) = merged.exhaustive {
        coverage["exhaustive"] = json!(e);
    }
    for (k, v) in &merged.extra {
        coverage[k] = v.clone();
    }
    let ev = json!({
        "property_id": p.id,
        "tier": tier.name(),
        "seed": seed,
        "level": p.level,
        "coverage": coverage,
        "assumptions": p.assumptions,
        "wall_s": wall,
        "violations": merged.violations.len() + if p.hang_is_violation { hangs.len() } else { 0 },
    });
    let evdir = Path::new(&verif_dir()).join("evidence");
    let _ = std::fs::create_dir_all(&evdir);
    let _ = std::fs::write(evdir.join(format!("{}.json", p.id)), serde_json::to_string_pretty(&ev).unwrap());
    let _ = writeln!(
        out,
        "SUMMARY property={} tier={} seed={} cases={} evaluations={} distinct_nontrivial={} known={} violations={} wall_s={:.1} exit={}",
        p.id,
        tier.name(),
        seed,
        merged.cases,
        merged.evaluations,
        merged.nontrivial.len(),
        merged.known_seen.len(),
        merged.violations.len(),
        wall,
        exit
    );
    if exit != 1 && std::env::var("VERIF_KEEP_LOGS").is_err() {
        let _ = std::fs::remove_dir_all(&outdir);
    }
    exit
}
