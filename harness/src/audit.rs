//! Page auditor (DESIGN.md §1.10): structural invariants of one tree / of the whole file, computed
//! from the uninterpreted page dump the facade provides. Placeholder for the tree part; filled below.
use axmosdb::verif::tree::Pages;
use std::collections::{BTreeMap, BTreeSet};

#[derive(Debug, Clone, PartialEq, Eq)]
pub enum Owner {
    TreeNode(u64),
    Overflow { tree: u64, page: u64, slot: usize },
    Free,
}

pub struct Audit {
    pub owners: BTreeMap<u64, Vec<Owner>>,
    pub leaves: Vec<u64>,
    pub depth: Option<usize>,
}

/// Walks the tree rooted at `root`. Returns the first violated invariant as (clause, detail).
pub fn walk_tree(pages: &Pages, root: u64, owners: &mut BTreeMap<u64, Vec<Owner>>, total_pages: u64) -> Result<(Vec<u64>, usize), (String, String)> {
    // iterative DFS keeping depth; collects leaves in left-to-right order
    let mut leaves = vec![];
    let mut leaf_depth: Option<usize> = None;
    let mut seen: BTreeSet<u64> = BTreeSet::new();
    fn visit(pages: &Pages, id: u64, depth: usize, root: u64, total: u64, owners: &mut BTreeMap<u64, Vec<Owner>>, seen: &mut BTreeSet<u64>, leaves: &mut Vec<u64>, leaf_depth: &mut Option<usize>) -> Result<(), (String, String)> {
        if id == 0 || id >= total {
            return Err(("page_id_out_of_range".into(), format!("tree {root}: reference to page {id} (total_pages {total})")));
        }
        if !seen.insert(id) {
            return Err(("page_reached_twice".into(), format!("tree {root}: page {id} is reachable twice")));
        }
        if depth > 64 {
            return Err(("tree_too_deep".into(), format!("tree {root}: depth > 64 at page {id}")));
        }
        owners.entry(id).or_default().push(Owner::TreeNode(root));
        let p = pages.btree_page(id).map_err(|e| ("page_unreadable".to_string(), format!("tree {root}: page {id}: {e}")))?;
        if p.page_number != id {
            return Err(("page_number_mismatch".into(), format!("tree {root}: page {id} says it is page {}", p.page_number)));
        }
        if p.cells.len() != p.num_slots as usize {
            return Err(("slot_count_mismatch".into(), format!("page {id}")));
        }
        // overflow chains
        for (slot, c) in p.cells.iter().enumerate() {
            if c.is_overflow {
                let mut cur = c.overflow_page;
                let mut hops = 0;
                if cur.is_none() {
                    return Err(("overflow_cell_without_chain".into(), format!("tree {root}: page {id} slot {slot}")));
                }
                while let Some(o) = cur {
                    if o == 0 || o >= total {
                        return Err(("page_id_out_of_range".into(), format!("tree {root}: overflow chain of page {id} slot {slot} references page {o} (total_pages {total})")));
                    }
                    hops += 1;
                    if hops > total {
                        return Err(("overflow_chain_cycle".into(), format!("tree {root}: page {id} slot {slot}")));
                    }
                    owners.entry(o).or_default().push(Owner::Overflow { tree: root, page: id, slot });
                    let op = pages.overflow_page(o).map_err(|e| ("page_unreadable".to_string(), format!("overflow page {o}: {e}")))?;
                    cur = op.next;
                }
            }
        }
        if p.is_leaf {
            match leaf_depth {
                None => *leaf_depth = Some(depth),
                Some(d) if *d != depth => return Err(("leaves_at_different_depth".into(), format!("tree {root}: leaf {id} at depth {depth}, earlier leaves at {d}"))),
                _ => {}
            }
            if p.cells.iter().any(|c| c.left_child.is_some()) {
                return Err(("leaf_cell_with_child".into(), format!("tree {root}: leaf {id}")));
            }
            leaves.push(id);
        } else {
            for (slot, c) in p.cells.iter().enumerate() {
                match c.left_child {
                    Some(ch) => visit(pages, ch, depth + 1, root, total, owners, seen, leaves, leaf_depth)?,
                    None => return Err(("interior_cell_without_child".into(), format!("tree {root}: page {id} slot {slot}"))),
                }
            }
            match p.right_child {
                Some(ch) => visit(pages, ch, depth + 1, root, total, owners, seen, leaves, leaf_depth)?,
                None => return Err(("interior_without_right_child".into(), format!("tree {root}: page {id}"))),
            }
        }
        Ok(())
    }
    visit(pages, root, 0, root, total_pages, owners, &mut seen, &mut leaves, &mut leaf_depth)?;
    Ok((leaves, leaf_depth.unwrap_or(0)))
}

/// Structural audit of one tree: reachability, equal leaf depth, sibling links mirror the in-order
/// leaf sequence, overflow chains well formed. With `whole_file` the tree is the only user of the
/// file (facade trees): then additionally every page is owned exactly once (tree node, overflow link or free).
pub fn audit_tree(pages: &Pages, root: u64, _cmp: &dyn Fn(&[u8], &[u8]) -> Option<std::cmp::Ordering>, whole_file: bool) -> Option<(String, String)> {
    let z = pages.page_zero();
    let mut owners: BTreeMap<u64, Vec<Owner>> = BTreeMap::new();
    let (leaves, _depth) = match walk_tree(pages, root, &mut owners, z.total_pages) {
        Ok(x) => x,
        Err(e) => return Some(e),
    };
    // sibling links mirror the in-order leaf sequence
    for (i, id) in leaves.iter().enumerate() {
        let p = match pages.btree_page(*id) {
            Ok(p) => p,
            Err(e) => return Some(("page_unreadable".into(), format!("leaf {id}: {e}"))),
        };
        let want_prev = if i == 0 { None } else { Some(leaves[i - 1]) };
        let want_next = leaves.get(i + 1).copied();
        if p.previous_sibling != want_prev || p.next_sibling != want_next {
            return Some(("sibling_links_wrong".into(), format!("tree {root}: leaf {id} (#{i} of {}) has prev {:?} next {:?}, in-order neighbours are {:?} / {:?}", leaves.len(), p.previous_sibling, p.next_sibling, want_prev, want_next)));
        }
    }
    if whole_file {
        if let Some(e) = audit_free_list_and_ownership(pages, &mut owners) {
            return Some(e);
        }
    }
    None
}

/// Cheap check of the free list alone: ids in range, no cycle, ends at the recorded tail.
pub fn audit_free_list(pages: &Pages) -> Option<(String, String)> {
    let z = pages.page_zero();
    let mut cur = z.first_free_page;
    let mut last = None;
    let mut n = 0u64;
    while let Some(f) = cur {
        if f == 0 || f >= z.total_pages {
            return Some(("free_list_out_of_range".into(), format!("free list references page {f} (total_pages {})", z.total_pages)));
        }
        n += 1;
        if n > z.total_pages {
            return Some(("free_list_cycle".into(), "free list does not end".into()));
        }
        last = Some(f);
        cur = match pages.overflow_page(f) {
            Ok(p) => p.next,
            Err(e) => return Some(("page_unreadable".into(), format!("free page {f}: {e}"))),
        };
    }
    if last != z.last_free_page {
        return Some(("free_list_tail_mismatch".into(), format!("free list ends at {:?}, header says last_free_page {:?} (first {:?})", last, z.last_free_page, z.first_free_page)));
    }
    None
}

/// Walks the free list and checks that every page 1..total_pages has exactly one owner.
pub fn audit_free_list_and_ownership(pages: &Pages, owners: &mut BTreeMap<u64, Vec<Owner>>) -> Option<(String, String)> {
    let z = pages.page_zero();
    let mut cur = z.first_free_page;
    let mut last = None;
    let mut n = 0u64;
    while let Some(f) = cur {
        if f == 0 || f >= z.total_pages {
            return Some(("free_list_out_of_range".into(), format!("free list references page {f} (total_pages {})", z.total_pages)));
        }
        n += 1;
        if n > z.total_pages {
            return Some(("free_list_cycle".into(), "free list does not end".into()));
        }
        owners.entry(f).or_default().push(Owner::Free);
        last = Some(f);
        cur = match pages.overflow_page(f) {
            Ok(p) => p.next,
            Err(e) => return Some(("page_unreadable".into(), format!("free page {f}: {e}"))),
        };
    }
    if last != z.last_free_page {
        return Some(("free_list_tail_mismatch".into(), format!("free list ends at {:?}, header says last_free_page {:?} (first {:?})", last, z.last_free_page, z.first_free_page)));
    }
    for id in 1..z.total_pages {
        match owners.get(&id).map(|v| v.len()).unwrap_or(0) {
            1 => {}
            0 => return Some(("page_leaked".into(), format!("page {id} of {} is neither a tree node, an overflow link nor free", z.total_pages))),
            _ => return Some(("page_multiply_owned".into(), format!("page {id} has owners {:?}", owners[&id]))),
        }
    }
    None
}

/// Whole-database audit at a quiescent point: every tree of the catalog is walked, the free list
/// is walked, and every page 1..total_pages must have exactly one owner. Returns also
/// (free pages, total pages) for the reuse accounting.
pub fn audit_database(db: &axmosdb::Database) -> Result<(u64, u64), (String, String)> {
    let roots = axmosdb::verif::tree::catalog_roots(db).map_err(|e| ("catalog_unreadable".to_string(), e))?;
    let pages = Pages::for_database(db);
    let z = pages.page_zero();
    let mut owners: BTreeMap<u64, Vec<Owner>> = BTreeMap::new();
    let mut seen_roots = BTreeSet::new();
    for (_oid, root, name) in &roots {
        if !seen_roots.insert(*root) {
            return Err(("two_relations_share_a_root".into(), format!("root page {root} ({name})")));
        }
        let (leaves, _) = walk_tree(&pages, *root, &mut owners, z.total_pages).map_err(|(c, d)| (c, format!("{name}: {d}")))?;
        for (i, id) in leaves.iter().enumerate() {
            let p = pages.btree_page(*id).map_err(|e| ("page_unreadable".to_string(), format!("leaf {id}: {e}")))?;
            let want_prev = if i == 0 { None } else { Some(leaves[i - 1]) };
            let want_next = leaves.get(i + 1).copied();
            if p.previous_sibling != want_prev || p.next_sibling != want_next {
                return Err(("sibling_links_wrong".into(), format!("{name}: leaf {id} has prev {:?} next {:?}, in-order neighbours {:?}/{:?}", p.previous_sibling, p.next_sibling, want_prev, want_next)));
            }
        }
    }
    if let Some(e) = audit_free_list_and_ownership(&pages, &mut owners) {
        return Err(e);
    }
    let free = owners.values().filter(|v| v.contains(&Owner::Free)).count() as u64;
    Ok((free, z.total_pages))
}
