//! Crash simulator (DESIGN.md §1.9): records the I/O stream of a workload through the `verif`
//! tap, rebuilds the on-disk image at every crash point (= prefix of the stream) and opens it.
//! Shared by C01 (nothing acknowledged is lost), C02 (nothing unacknowledged is visible) and
//! C08 (always reopens, usable, recovery converges).

use crate::dbx::{Cfg, Db, Out};
use crate::engine::*;
use crate::scratch::Scratch;
use crate::sqlmodel::*;
use crate::workload::*;
use axmosdb::verif::io::{IoEvent, IoKind};
use serde::{Deserialize, Serialize};
use std::collections::BTreeMap;

#[derive(Clone, Debug, Serialize, Deserialize)]
pub struct CrashCase {
    pub cfg: Cfg,
    pub steps: Vec<Step>,
    #[serde(default)]
    pub excluded: Vec<String>,
    /// crash-point sampling: every `stride`-th event boundary plus all boundaries adjacent to step ends (1 = all)
    #[serde(default)]
    pub stride: u32,
    /// nested crash points inside the recovery of each sampled image (0 = none)
    #[serde(default)]
    pub nested: u32,
    /// run checkpoints also while a session has uncommitted writes (crash points that the open finding about such
    /// checkpoints makes incomparable are skipped); false in cases recorded before this existed
    #[serde(default)]
    pub flush_with_open_writer: bool,
}

pub type Files = BTreeMap<String, Vec<u8>>;

pub fn apply_event(files: &mut Files, e: &IoEvent) {
    let name = e.path.file_name().map(|s| s.to_string_lossy().to_string()).unwrap_or_default();
    match &e.kind {
        IoKind::Create => {
            files.insert(name, Vec::new());
        }
        IoKind::Truncate => {
            files.insert(name, Vec::new());
        }
        IoKind::Remove => {
            files.remove(&name);
        }
        IoKind::SyncAll => {}
        IoKind::Write { offset, data } => {
            let f = files.entry(name).or_default();
            let end = *offset as usize + data.len();
            if f.len() < end {
                f.resize(end, 0);
            }
            f[*offset as usize..end].copy_from_slice(data);
        }
    }
}

fn changes_image(e: &IoEvent) -> bool {
    !matches!(e.kind, IoKind::SyncAll)
}

pub fn write_image(files: &Files) -> Scratch {
    let sc = Scratch::new();
    for (name, data) in files {
        std::fs::write(sc.path(name), data).expect("write image");
    }
    sc
}

/// What one opened image looks like.
#[derive(Clone, Debug, PartialEq)]
pub enum Observed {
    OpenFailed(String),
    State(BTreeMap<String, Option<Vec<Vec<Val>>>>),
}

pub fn observe_tables(db: &mut Db) -> Result<BTreeMap<String, Option<Vec<Vec<Val>>>>, String> {
    let mut m = BTreeMap::new();
    for t in ["t0", "t1", "t2"] {
        match db.exec(&format!("SELECT * FROM {t}")) {
            Ok(Out::Rows { rows, .. }) => {
                m.insert(t.to_string(), Some(rows));
            }
            Ok(o) => return Err(format!("SELECT * FROM {t} returned {o:?}")),
            Err(crate::dbx::Err::Panic(p)) => return Err(format!("PANIC {p}")),
            Err(e) => {
                let txt = e.text();
                if err_is_unknown_object(&txt) {
                    m.insert(t.to_string(), None);
                } else {
                    return Err(format!("SELECT * FROM {t}: {txt}"));
                }
            }
        }
    }
    Ok(m)
}

fn state_as_observed(s: &State) -> BTreeMap<String, Option<Vec<Vec<Val>>>> {
    let mut m = BTreeMap::new();
    for t in ["t0", "t1", "t2"] {
        m.insert(t.to_string(), s.tables.get(t).map(|t| t.rows.values().cloned().collect()));
    }
    m
}

fn same_obs(a: &BTreeMap<String, Option<Vec<Vec<Val>>>>, b: &BTreeMap<String, Option<Vec<Vec<Val>>>>) -> bool {
    a.len() == b.len()
        && a.iter().all(|(k, v)| match (v, b.get(k)) {
            (None, Some(None)) => true,
            (Some(x), Some(Some(y))) => rows_equal(x, y),
            _ => false,
        })
}

/// engine ⊇ model: every table of the model exists and holds at least the model's rows.
fn superset_obs(engine: &BTreeMap<String, Option<Vec<Vec<Val>>>>, model: &BTreeMap<String, Option<Vec<Vec<Val>>>>) -> Option<String> {
    for (t, mv) in model {
        let Some(mrows) = mv else { continue };
        match engine.get(t) {
            Some(Some(erows)) => {
                let e = multiset(erows);
                let m = multiset(mrows);
                for (k, n) in &m {
                    if e.get(k).copied().unwrap_or(0) < *n {
                        return Some(format!("table {t}: acknowledged rows {} but the reopened database has {}", show_rows(mrows), show_rows(erows)));
                    }
                }
            }
            _ => return Some(format!("table {t} was committed but does not exist after reopening")),
        }
    }
    None
}

/// True when every row the engine has beyond the acknowledged state `a` was part of an earlier
/// acknowledged state of the same table (so it was removed by an acknowledged transaction).
fn extra_rows_were_acknowledged_earlier(engine: &BTreeMap<String, Option<Vec<Vec<Val>>>>, a: &BTreeMap<String, Option<Vec<Vec<Val>>>>, marks: &[Mark]) -> bool {
    let mut any_extra = false;
    for (t, ev) in engine {
        let Some(erows) = ev else { continue };
        let arows: Vec<Vec<Val>> = a.get(t).cloned().flatten().unwrap_or_default();
        let am = multiset(&arows);
        let em = multiset(erows);
        for (k, n) in &em {
            let have = am.get(k).copied().unwrap_or(0);
            if *n > have {
                any_extra = true;
                let earlier = marks.iter().any(|m| m.committed.tables.get(t).map(|tb| multiset(&tb.rows.values().cloned().collect::<Vec<_>>()).get(k).copied().unwrap_or(0) >= *n).unwrap_or(false));
                if !earlier {
                    return false;
                }
            }
        }
    }
    any_extra
}

fn show_obs(o: &BTreeMap<String, Option<Vec<Vec<Val>>>>) -> String {
    o.iter().filter_map(|(t, r)| r.as_ref().map(|r| format!("{t}:{}", show_rows(r)))).collect::<Vec<_>>().join(" ")
}

pub struct Mark {
    pub event_idx: usize,
    pub committed: State,
    pub desc: String,
    /// tags of everything that ran up to and including this step
    pub tags: Vec<String>,
    /// sessions with uncommitted writes are open after this step
    pub open_writers: bool,
    pub had_noncommit: bool,
    /// a session that was checkpointed while it had uncommitted writes is still open, or ended without commit
    /// (open finding F-C02-checkpoint-with-open-writer: from here on images are not comparable)
    #[allow(dead_code)]
    pub tainted: bool,
}

/// Runs the workload, recording I/O. Returns (events, marks, interpreter failure if the live run itself diverged).
pub fn record(c: &CrashCase) -> Result<(Vec<IoEvent>, Vec<Mark>, Vec<String>, Vec<String>), Failure> {
    let excluded: BTreeMap<String, String> = c.excluded.iter().map(|t| (t.clone(), String::new())).collect();
    axmosdb::verif::io::start_recording();
    let mut it = match Interp::new(c.cfg, excluded) {
        Ok(i) => i,
        Err(f) => {
            axmosdb::verif::io::stop_recording();
            return Err(f);
        }
    };
    it.check_state_every_step = false;
    it.check_outputs = true;
    it.allow_flush_with_open_writer = c.flush_with_open_writer;
    let mut tainted: std::collections::BTreeSet<u8> = Default::default();
    let mut unresolved = false;
    let mut marks = vec![Mark { event_idx: axmosdb::verif::io::event_count(), committed: it.model.committed.clone(), desc: "database created".into(), tags: vec![], open_writers: false, had_noncommit: false, tainted: false }];
    let mut live_fail = None;
    for (i, st) in c.steps.iter().enumerate() {
        if !it.db.usable() {
            break;
        }
        if matches!(st, Step::Reopen(_)) {
            continue; // crash histories never close cleanly
        }
        let writers_before: Vec<u8> = it.txns.iter().filter(|(s, t)| t.wrote || it.doomed.contains(*s)).map(|(s, _)| *s).collect();
        let flushes_before = it.transcript.iter().filter(|l| l.ends_with("flush")).count();
        if let Some(f) = it.step(i, st) {
            live_fail = Some(f);
            break;
        }
        if matches!(st, Step::Flush) && it.transcript.iter().filter(|l| l.ends_with("flush")).count() > flushes_before {
            tainted.extend(writers_before.iter().copied());
        }
        for s in tainted.clone() {
            if !it.txns.contains_key(&s) {
                tainted.remove(&s);
                let committed = matches!(st, Step::Commit(x) if *x == s) && it.last_step_kind == "commit_path";
                if !committed {
                    unresolved = true;
                }
            }
        }
        let desc = it.transcript.last().cloned().unwrap_or_default();
        marks.push(Mark {
            tainted: unresolved || !tainted.is_empty(),
            event_idx: axmosdb::verif::io::event_count(),
            committed: it.model.committed.clone(),
            desc,
            tags: it.tags.iter().cloned().collect(),
            open_writers: it.txns.iter().any(|(s, t)| t.wrote || it.doomed.contains(s)),
            had_noncommit: it.pending_noncommit_write,
        });
    }
    let transcript = it.transcript.clone();
    let skipped = it.skipped.clone();
    // stop recording before the handle is dropped: Drop's writes come after the crash
    let events = axmosdb::verif::io::stop_recording();
    drop(it);
    if let Some(f) = live_fail {
        // the live run diverged from the model before any crash: not this module's business
        return Err(Failure { clause: format!("live.{}", f.clause), ..f });
    }
    Ok((events, marks, transcript, skipped))
}

pub struct CrashReport {
    pub out: CaseOut,
    /// failures by property prefix: "c01", "c02", "c08"
    pub failures: Vec<Failure>,
}

fn usability_probe(db: &mut Db) -> Option<String> {
    let stmts = ["CREATE TABLE zprobe (a INT, b TEXT)", "INSERT INTO zprobe VALUES (1, 'x'), (2, 'y')", "DELETE FROM zprobe WHERE a = 1", "SELECT * FROM zprobe", "DROP TABLE zprobe"];
    for s in stmts {
        match db.exec(s) {
            Ok(Out::Rows { rows, .. }) => {
                if rows.len() != 1 {
                    return Some(format!("`{s}` returned {} rows, expected 1", rows.len()));
                }
            }
            Ok(_) => {}
            Err(e) => return Some(format!("`{s}` failed: {}", e.text())),
        }
    }
    None
}


/// Constraint probe after recovery: rows with a NULL in each column in turn, and a copy of an existing row, are
/// offered to every table. Built from `shape` (names and types); returns the statements and whether the engine
/// accepted each.
fn constraint_probe(db: &mut Db, shape: &State, other: Option<&State>) -> Vec<(Stmt, bool, String)> {
    let mut v = vec![];
    let mut n = 0i64;
    for (name, tb) in &shape.tables {
        let fresh = |n: i64, skip: Option<usize>| -> Vec<Val> {
            tb.def
                .cols
                .iter()
                .enumerate()
                .map(|(j, c)| {
                    if Some(j) == skip {
                        return Val::Null;
                    }
                    let x = 5000 + 16 * n + j as i64;
                    match c.ty {
                        Ty::Int | Ty::BigInt => Val::Int(x),
                        Ty::Double => Val::Dbl(x as f64),
                        Ty::Text => Val::Text(format!("zp{x}")),
                        Ty::Bool => Val::Bool(n % 2 == 0),
                    }
                })
                .collect()
        };
        // (a NULL in a column under a unique key is the business of C07: open finding unique.null_key)
        let mut rows: Vec<Vec<Val>> = (0..tb.def.cols.len()).filter(|j| !tb.def.uniques.iter().chain(other.and_then(|o| o.tables.get(name)).map(|t| t.def.uniques.iter()).into_iter().flatten()).any(|u| u.contains(j))).map(|j| { n += 1; fresh(n, Some(j)) }).collect();
        if let Some(r) = tb.rows.values().next() {
            rows.push(r.clone());
        }
        for row in rows {
            let st = Stmt::Insert { table: name.clone(), cols: None, rows: vec![row] };
            let sql = crate::sqlmodel::stmt_sql(&st, shape);
            let (ok, sql) = match db.exec(&sql) {
                Ok(_) => (true, sql),
                Err(e) => (false, format!("{sql}` -> `{}", truncate(&e.text(), 160))),
            };
            v.push((st, ok, sql));
        }
    }
    v
}

/// What the model says about the probe statements when they run, in order, on `state`.
fn probe_expectation(state: &State, probe: &[(Stmt, bool, String)]) -> Vec<bool> {
    let mut view = state.clone();
    let mut next = u64::MAX / 4;
    probe.iter().map(|(st, _, _)| !matches!(crate::sqlmodel::exec_model(&mut view, &mut next, st).0, MOut::Err(..))).collect()
}

/// Opens `files` as a database and observes it. Optionally records the I/O of the open (recovery).
fn open_and_observe(files: &Files, cfg: Cfg, record_recovery: bool) -> (Observed, Option<Db>, Vec<IoEvent>) {
    let sc = write_image(files);
    if record_recovery {
        axmosdb::verif::io::start_recording();
    }
    let r = Db::open_at(sc, cfg);
    let ev = if record_recovery { axmosdb::verif::io::stop_recording() } else { vec![] };
    match r {
        Err((e, _sc)) => (Observed::OpenFailed(e), None, ev),
        Ok(mut db) => match observe_tables(&mut db) {
            Ok(s) => (Observed::State(s), Some(db), ev),
            Err(e) => (Observed::OpenFailed(format!("opened, but unreadable: {e}")), None, ev),
        },
    }
}

pub fn run_crash(c: &CrashCase) -> CrashReport {
    let excluded: BTreeMap<String, String> = c.excluded.iter().map(|t| (t.clone(), String::new())).collect();
    let mut out = CaseOut::pass();
    out.evals = 0;
    let mut failures: Vec<Failure> = vec![];
    let (events, marks, transcript, skipped) = match record(c) {
        Ok(x) => x,
        Err(f) => {
            if f.clause.starts_with("live.") {
                out.labels.push(format!("abandoned.{}", f.clause));
                out.evals = 1;
                return CrashReport { out, failures };
            }
            failures.push(f);
            out.evals = 1;
            return CrashReport { out, failures };
        }
    };
    for t in skipped {
        out.excluded.push(t);
    }
    let case_hash = hash_of(&serde_json::to_string(&c.steps).unwrap_or_default());
    let stride = c.stride.max(1) as usize;
    let first = marks[0].event_idx;
    let mut files: Files = BTreeMap::new();
    let mut mark_i = 0usize;
    let mark_idxs: std::collections::BTreeSet<usize> = marks.iter().map(|m| m.event_idx).collect();
    let tail = |n: usize| -> String { transcript.iter().take(n).rev().take(10).rev().cloned().collect::<Vec<_>>().join("\n    ") };
    let mut seen_clauses: std::collections::BTreeSet<String> = Default::default();
    for k in 0..=events.len() {
        if k > 0 {
            apply_event(&mut files, &events[k - 1]);
        }
        if k < first {
            continue;
        }
        if k > 0 && k > first && !changes_image(&events[k - 1]) {
            continue; // same image as the previous crash point
        }
        while mark_i + 1 < marks.len() && marks[mark_i + 1].event_idx <= k {
            mark_i += 1;
        }
        let near_mark = mark_idxs.contains(&k) || mark_idxs.contains(&(k + 1)) || mark_idxs.contains(&k.saturating_sub(1));
        if !(near_mark || (k - first) % stride == 0) {
            continue;
        }
        let acked = &marks[mark_i];
        let inflight = marks.get(mark_i + 1);
        if acked.tainted || inflight.map(|m| m.tainted).unwrap_or(false) {
            if excluded.contains_key("admin.flush_with_open_writer") {
                out.excluded.push("admin.flush_with_open_writer".into());
                continue;
            }
        }
        let a = state_as_observed(&acked.committed);
        let a_next = inflight.map(|m| state_as_observed(&m.committed));
        out.evals += 1;
        let mut tags: Vec<String> = inflight.map(|m| m.tags.clone()).unwrap_or_else(|| acked.tags.clone());
        let mid_step = inflight.is_some() && acked.event_idx != k;
        if mid_step {
            tags.push("crash.mid_step".into());
            let d = inflight.map(|m| m.desc.as_str()).unwrap_or("");
            if d.ends_with("flush") || d.ends_with("vacuum") {
                tags.push("crash.inside_checkpoint".into());
                if excluded.contains_key("crash.inside_checkpoint") {
                    out.excluded.push("crash.inside_checkpoint".into());
                    continue;
                }
            }
        }
        let at = format!("crash point {k}/{} ({} step `{}`)", events.len(), if mid_step { "inside" } else { "after" }, if mid_step { inflight.map(|m| m.desc.as_str()).unwrap_or("") } else { acked.desc.as_str() });
        let (obs, db, rec_events) = open_and_observe(&files, c.cfg, c.nested > 0);
        let recovery_has_work = !acked.committed.tables.is_empty();
        if recovery_has_work {
            out.nontrivial.push(hash_of(&(case_hash, k)));
        }
        let tags_cell = std::cell::RefCell::new(tags);
        let mut push = |clause: &str, detail: String, failures: &mut Vec<Failure>| {
            if seen_clauses.insert(clause.to_string()) {
                failures.push(Failure::new(clause, format!("{at}: {detail}\n  history:\n    {}", tail(transcript.len()))).with_tags(tags_cell.borrow().clone()));
            }
        };
        match obs {
            Observed::OpenFailed(e) => {
                push("c08.open_fails", format!("open failed: {}", truncate(&e, 300)), &mut failures);
            }
            Observed::State(s) => {
                // C01: nothing acknowledged is lost
                let ok_next = a_next.as_ref().map(|n| same_obs(&s, n)).unwrap_or(false);
                if !ok_next {
                    if let Some(why) = superset_obs(&s, &a) {
                        push("c01.acknowledged_commit_lost", why, &mut failures);
                    } else if !same_obs(&s, &a) && extra_rows_were_acknowledged_earlier(&s, &a, &marks[..=mark_i]) {
                        // rows that an acknowledged transaction deleted (or replaced) are back
                        push("c01.acknowledged_delete_lost", format!("reopened database has {} ; acknowledged state is {} (the extra rows existed in an earlier acknowledged state: an acknowledged DELETE/UPDATE was lost)", show_obs(&s), show_obs(&a)), &mut failures);
                    } else if !same_obs(&s, &a) {
                        // C02: something unacknowledged is visible
                        let clause = if acked.open_writers || inflight.map(|m| m.open_writers).unwrap_or(false) {
                            "c02.open_txn_write_visible"
                        } else if acked.had_noncommit || inflight.map(|m| m.had_noncommit).unwrap_or(false) {
                            "c02.rolled_back_write_visible"
                        } else {
                            "c02.unacknowledged_write_visible"
                        };
                        push(clause, format!("reopened database has {} ; acknowledged state is {}{}", show_obs(&s), show_obs(&a), a_next.as_ref().map(|n| format!(" ; in-flight commit would give {}", show_obs(n))).unwrap_or_default()), &mut failures);
                    }
                }
                // C08: usable, stable across another open, recovery converges
                if let Some(mut db) = db {
                    if let Some(e) = usability_probe(&mut db) {
                        push("c08.unusable_after_recovery", e, &mut failures);
                    }
                    match observe_tables(&mut db) {
                        Ok(s2) if same_obs(&s, &s2) => {}
                        Ok(s2) => push("c08.contents_change_after_recovery", format!("right after open: {} ; after the usability probe: {}", show_obs(&s), show_obs(&s2)), &mut failures),
                        Err(e) => push("c08.unusable_after_recovery", e, &mut failures),
                    }
                    // clean close + reopen changes nothing
                    match db.reopen(c.cfg) {
                        Ok(()) => match observe_tables(&mut db) {
                            Ok(s3) if same_obs(&s, &s3) => {}
                            Ok(s3) => push("c08.second_open_changes_contents", format!("first open: {} ; after close and reopen: {}", show_obs(&s), show_obs(&s3)), &mut failures),
                            Err(e) => push("c08.second_open_fails", e, &mut failures),
                        },
                        Err(e) => push("c08.second_open_fails", e.text(), &mut failures),
                    }
                    // constraints are part of the state: what the tables accept and reject after recovery is what the
                    // acknowledged schema (or the one of the in-flight commit) accepts and rejects
                    if db.usable() && (same_obs(&s, &a) || ok_next) && !acked.committed.tables.is_empty() {
                        let shape = if same_obs(&s, &a) { &acked.committed } else { &inflight.unwrap().committed };
                        let probe = constraint_probe(&mut db, shape, inflight.map(|m| &m.committed));
                        let got: Vec<bool> = probe.iter().map(|p| p.1).collect();
                        let want_a = probe_expectation(&acked.committed, &probe);
                        let want_n = inflight.map(|m| probe_expectation(&m.committed, &probe));
                        out.labels.push("constraint_probe".into());
                        if got != want_a && Some(&got) != want_n.as_ref() {
                            let want = if same_obs(&s, &a) { &want_a } else { want_n.as_ref().unwrap_or(&want_a) };
                            if let Some(i) = (0..got.len()).find(|i| got[*i] != want[*i]) {
                                if got[i] {
                                    push("c01.acknowledged_constraint_lost", format!("after recovery `{}` is accepted; the acknowledged schema rejects it", probe[i].2), &mut failures);
                                } else {
                                    push("c02.unacknowledged_constraint_in_force", format!("after recovery `{}` is rejected; the acknowledged schema accepts it", probe[i].2), &mut failures);
                                }
                            }
                        }
                    }
                    drop(db);
                }
                // nested crashes inside recovery
                if c.nested > 0 && !rec_events.is_empty() {
                    let n = rec_events.len();
                    let step = (n / c.nested as usize).max(1);
                    let mut nested_files = files.clone();
                    for j in 1..=n {
                        apply_event(&mut nested_files, &rec_events[j - 1]);
                        if !changes_image(&rec_events[j - 1]) || (j % step != 0 && j != n) {
                            continue;
                        }
                        if j != n && excluded.contains_key("crash.inside_recovery") {
                            out.excluded.push("crash.inside_recovery".into());
                            continue;
                        }
                        if j != n && !tags_cell.borrow().iter().any(|t| t == "crash.inside_recovery") {
                            tags_cell.borrow_mut().push("crash.inside_recovery".into());
                        }
                        out.evals += 1;
                        out.labels.push("nested_crash".into());
                        let (o2, _db2, _) = open_and_observe(&nested_files, c.cfg, false);
                        match o2 {
                            Observed::OpenFailed(e) => push("c08.open_fails_after_interrupted_recovery", format!("recovery interrupted after {j}/{n} of its writes, then open failed: {}", truncate(&e, 300)), &mut failures),
                            Observed::State(s4) => {
                                if !same_obs(&s, &s4) {
                                    push("c08.recovery_not_convergent", format!("recovery interrupted after {j}/{n} of its writes and restarted gives {} ; uninterrupted recovery gives {}", show_obs(&s4), show_obs(&s)), &mut failures);
                                }
                            }
                        }
                    }
                }
            }
        }
    }
    if out.evals == 0 {
        out.evals = 1;
    }
    let last = marks.last().unwrap();
    for l in ["admin.flush", "admin.vacuum", "txn.rollback", "txn.commit", "txn.concurrent", "ddl.create_table", "update", "delete"] {
        if last.tags.iter().any(|t| t == l) {
            out.labels.push(l.to_string());
        }
    }
    if marks.iter().any(|m| m.open_writers) {
        out.labels.push("open_writer_at_some_crash_point".into());
    }
    let _ = crate::panics::take();
    CrashReport { out, failures }
}

/// Picks, for property `prefix` ("c01" | "c02" | "c08"), the first failure that belongs to it.
pub fn for_property(mut r: CrashReport, prefix: &str) -> CaseOut {
    let own = r.failures.iter().find(|f| f.clause.starts_with(prefix)).cloned();
    let foreign = r.failures.iter().filter(|f| !f.clause.starts_with(prefix)).count();
    if foreign > 0 {
        r.out.labels.push("other_property_failed_here".into());
    }
    r.out.failure = own.map(|f| Failure { clause: f.clause[prefix.len() + 1..].to_string(), ..f });
    r.out
}

pub fn crash_opts(max_steps: usize) -> GenOpts {
    GenOpts { sessions: 2, max_steps, flush: true, vacuum: false, bad: true, batch: true, big_values: false, ..GenOpts::default() }
}
