//! Reference evaluator for queries (DESIGN.md §1.5): typed expression AST with its own printer
//! (minimal parentheses by the documented precedence table, and fully parenthesised), textbook
//! evaluation of SELECT with joins, WHERE, GROUP BY/aggregates, DISTINCT, ORDER BY, LIMIT/OFFSET.
//! Shares no code with the engine.

use crate::sqlmodel::{CmpOp, Ty, Val, cmp_vals};
use serde::{Deserialize, Serialize};
use std::cmp::Ordering;

#[derive(Clone, Copy, Debug, PartialEq, Eq, Serialize, Deserialize, Hash)]
pub enum ArOp {
    Add,
    Sub,
    Mul,
    Div,
    Mod,
}

impl ArOp {
    fn sql(&self) -> &'static str {
        match self {
            ArOp::Add => "+",
            ArOp::Sub => "-",
            ArOp::Mul => "*",
            ArOp::Div => "/",
            ArOp::Mod => "%",
        }
    }
    fn prec(&self) -> u8 {
        match self {
            ArOp::Add | ArOp::Sub => 7,
            _ => 9,
        }
    }
}

#[derive(Clone, Copy, Debug, PartialEq, Eq, Serialize, Deserialize, Hash)]
pub enum FnKind {
    Abs,
    Round,
    Floor,
    Ceil,
    Length,
    Upper,
    Lower,
    Coalesce,
    NullIf,
}

impl FnKind {
    fn name(&self) -> &'static str {
        match self {
            FnKind::Abs => "ABS",
            FnKind::Round => "ROUND",
            FnKind::Floor => "FLOOR",
            FnKind::Ceil => "CEIL",
            FnKind::Length => "LENGTH",
            FnKind::Upper => "UPPER",
            FnKind::Lower => "LOWER",
            FnKind::Coalesce => "COALESCE",
            FnKind::NullIf => "NULLIF",
        }
    }
}

/// Column reference: (index of the table in the FROM list, column index).
#[derive(Clone, Debug, PartialEq, Serialize, Deserialize)]
pub enum E {
    Col(u8, u8),
    Lit(Val),
    Cmp(CmpOp, Box<E>, Box<E>),
    And(Box<E>, Box<E>),
    Or(Box<E>, Box<E>),
    Not(Box<E>),
    IsNull(Box<E>, bool),
    Between(Box<E>, Box<E>, Box<E>, bool),
    In(Box<E>, Vec<E>, bool),
    Like(Box<E>, String, bool),
    Arith(ArOp, Box<E>, Box<E>),
    Neg(Box<E>),
    Concat(Box<E>, Box<E>),
    Func(FnKind, Vec<E>),
}

#[derive(Clone, Debug, PartialEq)]
pub enum EvalErr {
    /// integer overflow / division by zero / anything the SQL standard leaves to the implementation
    Undefined(String),
}

fn tri_and(a: Option<bool>, b: Option<bool>) -> Option<bool> {
    match (a, b) {
        (Some(false), _) | (_, Some(false)) => Some(false),
        (Some(true), Some(true)) => Some(true),
        _ => None,
    }
}
fn tri_or(a: Option<bool>, b: Option<bool>) -> Option<bool> {
    match (a, b) {
        (Some(true), _) | (_, Some(true)) => Some(true),
        (Some(false), Some(false)) => Some(false),
        _ => None,
    }
}
fn as_tri(v: &Val) -> Option<bool> {
    match v {
        Val::Bool(b) => Some(*b),
        _ => None,
    }
}
fn from_tri(t: Option<bool>) -> Val {
    match t {
        Some(b) => Val::Bool(b),
        None => Val::Null,
    }
}

/// SQL LIKE with % and _ over bytes of UTF-8 chars.
pub fn like(s: &str, pat: &str) -> bool {
    let s: Vec<char> = s.chars().collect();
    let p: Vec<char> = pat.chars().collect();
    fn rec(s: &[char], p: &[char]) -> bool {
        match p.first() {
            None => s.is_empty(),
            Some('%') => (0..=s.len()).any(|i| rec(&s[i..], &p[1..])),
            Some('_') => !s.is_empty() && rec(&s[1..], &p[1..]),
            Some(c) => s.first() == Some(c) && rec(&s[1..], &p[1..]),
        }
    }
    rec(&s, &p)
}

impl E {
    pub fn eval(&self, rows: &[&[Val]]) -> Result<Val, EvalErr> {
        Ok(match self {
            E::Col(t, c) => rows[*t as usize][*c as usize].clone(),
            E::Lit(v) => v.clone(),
            E::Cmp(op, a, b) => {
                let (x, y) = (a.eval(rows)?, b.eval(rows)?);
                from_tri(cmp_vals(&x, &y).map(|o| op.test(o)))
            }
            E::And(a, b) => from_tri(tri_and(as_tri(&a.eval(rows)?), as_tri(&b.eval(rows)?))),
            E::Or(a, b) => from_tri(tri_or(as_tri(&a.eval(rows)?), as_tri(&b.eval(rows)?))),
            E::Not(a) => from_tri(as_tri(&a.eval(rows)?).map(|b| !b)),
            E::IsNull(a, neg) => Val::Bool(a.eval(rows)?.is_null() != *neg),
            E::Between(x, lo, hi, neg) => {
                let (x, lo, hi) = (x.eval(rows)?, lo.eval(rows)?, hi.eval(rows)?);
                let ge = cmp_vals(&x, &lo).map(|o| o != Ordering::Less);
                let le = cmp_vals(&x, &hi).map(|o| o != Ordering::Greater);
                from_tri(tri_and(ge, le).map(|b| b != *neg))
            }
            E::In(x, list, neg) => {
                let x = x.eval(rows)?;
                if x.is_null() {
                    Val::Null
                } else {
                    let mut unknown = false;
                    let mut found = false;
                    for e in list {
                        match cmp_vals(&x, &e.eval(rows)?) {
                            Some(Ordering::Equal) => found = true,
                            Some(_) => {}
                            None => unknown = true,
                        }
                    }
                    if found {
                        Val::Bool(!*neg)
                    } else if unknown {
                        Val::Null
                    } else {
                        Val::Bool(*neg)
                    }
                }
            }
            E::Like(x, pat, neg) => match x.eval(rows)? {
                Val::Text(s) => Val::Bool(like(&s, pat) != *neg),
                _ => Val::Null,
            },
            E::Arith(op, a, b) => {
                let (x, y) = (a.eval(rows)?, b.eval(rows)?);
                match (&x, &y) {
                    (Val::Null, _) | (_, Val::Null) => Val::Null,
                    (Val::Int(p), Val::Int(q)) => {
                        let r = match op {
                            ArOp::Add => p.checked_add(*q),
                            ArOp::Sub => p.checked_sub(*q),
                            ArOp::Mul => p.checked_mul(*q),
                            ArOp::Div => {
                                if *q == 0 {
                                    return Err(EvalErr::Undefined("division by zero".into()));
                                }
                                p.checked_div(*q)
                            }
                            ArOp::Mod => {
                                if *q == 0 {
                                    return Err(EvalErr::Undefined("modulo by zero".into()));
                                }
                                p.checked_rem(*q)
                            }
                        };
                        match r {
                            // stay inside 32 bits: what an INT expression does beyond is implementation-defined
                            Some(v) if v.abs() < (1 << 31) => Val::Int(v),
                            _ => return Err(EvalErr::Undefined("integer overflow".into())),
                        }
                    }
                    _ => {
                        let (p, q) = (x.as_f64().ok_or_else(|| EvalErr::Undefined("type".into()))?, y.as_f64().ok_or_else(|| EvalErr::Undefined("type".into()))?);
                        let r = match op {
                            ArOp::Add => p + q,
                            ArOp::Sub => p - q,
                            ArOp::Mul => p * q,
                            ArOp::Div => {
                                if q == 0.0 {
                                    return Err(EvalErr::Undefined("division by zero".into()));
                                }
                                p / q
                            }
                            ArOp::Mod => return Err(EvalErr::Undefined("float modulo".into())),
                        };
                        Val::Dbl(r)
                    }
                }
            }
            E::Neg(a) => match a.eval(rows)? {
                Val::Null => Val::Null,
                Val::Int(i) => Val::Int(-i),
                Val::Dbl(d) => Val::Dbl(-d),
                _ => return Err(EvalErr::Undefined("type".into())),
            },
            E::Func(f, args) => {
                let v: Vec<Val> = args.iter().map(|a| a.eval(rows)).collect::<Result<_, _>>()?;
                match (f, v.as_slice()) {
                    (FnKind::Coalesce, [a, b]) => if a.is_null() { b.clone() } else { a.clone() },
                    (FnKind::NullIf, [a, b]) => if !a.is_null() && !b.is_null() && cmp_vals(a, b) == Some(Ordering::Equal) { Val::Null } else { a.clone() },
                    (_, [Val::Null]) => Val::Null,
                    (FnKind::Abs, [Val::Int(i)]) => Val::Dbl((*i as f64).abs()),
                    (FnKind::Abs, [Val::Dbl(d)]) => Val::Dbl(d.abs()),
                    (FnKind::Round, [x]) => Val::Dbl(x.as_f64().ok_or_else(|| EvalErr::Undefined("type".into()))?.round()),
                    (FnKind::Floor, [x]) => Val::Dbl(x.as_f64().ok_or_else(|| EvalErr::Undefined("type".into()))?.floor()),
                    (FnKind::Ceil, [x]) => Val::Dbl(x.as_f64().ok_or_else(|| EvalErr::Undefined("type".into()))?.ceil()),
                    (FnKind::Length, [Val::Text(t)]) => Val::Int(t.chars().count() as i64),
                    (FnKind::Upper, [Val::Text(t)]) => Val::Text(t.to_uppercase()),
                    (FnKind::Lower, [Val::Text(t)]) => Val::Text(t.to_lowercase()),
                    _ => return Err(EvalErr::Undefined("function arguments".into())),
                }
            }
            E::Concat(a, b) => match (a.eval(rows)?, b.eval(rows)?) {
                (Val::Text(x), Val::Text(y)) => Val::Text(x + &y),
                (Val::Null, _) | (_, Val::Null) => Val::Null,
                _ => return Err(EvalErr::Undefined("type".into())),
            },
        })
    }

    fn prec(&self) -> u8 {
        match self {
            E::Or(..) => 1,
            E::And(..) => 3,
            E::Not(..) => 4,
            E::Cmp(..) | E::IsNull(..) | E::Between(..) | E::In(..) | E::Like(..) => 5,
            E::Arith(op, ..) => op.prec(),
            E::Concat(..) => 7,
            E::Neg(..) => 9,
            E::Col(..) | E::Func(..) => 11,
            E::Lit(Val::Int(i)) if *i < 0 => 11, // "-5" is lexed as one negative literal after a prefix minus
            E::Lit(Val::Dbl(d)) if *d < 0.0 => 11,
            E::Lit(..) => 11,
        }
    }

    /// Prints with the fewest parentheses the documented precedence table allows
    /// (OR < AND < NOT < comparison/IS/BETWEEN/IN/LIKE < + - || < * / % < unary minus), so that a wrong
    /// binding power in the parser changes the parse. `full` = parenthesise every operator node.
    pub fn sql(&self, names: &dyn Fn(u8, u8) -> String, full: bool) -> String {
        let child = |e: &E, min: u8| -> String {
            let s = e.sql(names, full);
            if full {
                match e {
                    E::Col(..) | E::Lit(..) => s,
                    _ => format!("({s})"),
                }
            } else if e.prec() < min {
                format!("({s})")
            } else {
                s
            }
        };
        match self {
            E::Col(t, c) => names(*t, *c),
            E::Lit(v) => v.sql(),
            E::Or(a, b) => format!("{} OR {}", child(a, 1), child(b, 2)),
            E::And(a, b) => format!("{} AND {}", child(a, 3), child(b, 4)),
            E::Not(a) => format!("NOT {}", child(a, 4)),
            E::Cmp(op, a, b) => format!("{} {} {}", child(a, 5), op.sql(), child(b, 6)),
            E::IsNull(a, neg) => format!("{} IS {}NULL", child(a, 5), if *neg { "NOT " } else { "" }),
            E::Between(x, lo, hi, neg) => format!("{} {}BETWEEN {} AND {}", child(x, 5), if *neg { "NOT " } else { "" }, child(lo, 7), child(hi, 7)),
            E::In(x, list, neg) => format!("{} {}IN ({})", child(x, 5), if *neg { "NOT " } else { "" }, list.iter().map(|e| e.sql(names, full)).collect::<Vec<_>>().join(", ")),
            E::Like(x, p, neg) => format!("{} {}LIKE {}", child(x, 5), if *neg { "NOT " } else { "" }, Val::Text(p.clone()).sql()),
            E::Arith(op, a, b) => format!("{} {} {}", child(a, op.prec()), op.sql(), child(b, op.prec() + 1)),
            E::Concat(a, b) => format!("{} || {}", child(a, 7), child(b, 8)),
            E::Neg(a) => format!("- {}", child(a, 10)),
            E::Func(f, args) => format!("{}({})", f.name(), args.iter().map(|a| a.sql(names, full)).collect::<Vec<_>>().join(", ")),
        }
    }

    /// Static numeric class of a numeric expression: true = DOUBLE, false = integer.
    pub fn is_double(&self, ty_of: &dyn Fn(u8, u8) -> Ty) -> bool {
        match self {
            E::Col(t, c) => ty_of(*t, *c) == Ty::Double,
            E::Lit(Val::Dbl(_)) => true,
            E::Lit(_) => false,
            E::Arith(_, a, b) => a.is_double(ty_of) || b.is_double(ty_of),
            E::Neg(a) => a.is_double(ty_of),
            E::Func(FnKind::Abs | FnKind::Round | FnKind::Floor | FnKind::Ceil, _) => true,
            E::Func(FnKind::Coalesce | FnKind::NullIf, args) => args.first().map(|a| a.is_double(ty_of)).unwrap_or(false),
            _ => false,
        }
    }

    /// Rebuilds the expression with every column reference replaced by `f(table position, column)`.
    pub fn map_cols(&self, f: &dyn Fn(u8, u8) -> E) -> E {
        let b = |e: &E| Box::new(e.map_cols(f));
        match self {
            E::Col(t, c) => f(*t, *c),
            E::Lit(v) => E::Lit(v.clone()),
            E::Cmp(o, x, y) => E::Cmp(*o, b(x), b(y)),
            E::And(x, y) => E::And(b(x), b(y)),
            E::Or(x, y) => E::Or(b(x), b(y)),
            E::Not(x) => E::Not(b(x)),
            E::IsNull(x, n) => E::IsNull(b(x), *n),
            E::Between(x, lo, hi, n) => E::Between(b(x), b(lo), b(hi), *n),
            E::In(x, l, n) => E::In(b(x), l.iter().map(|e| e.map_cols(f)).collect(), *n),
            E::Like(x, p, n) => E::Like(b(x), p.clone(), *n),
            E::Arith(o, x, y) => E::Arith(*o, b(x), b(y)),
            E::Neg(x) => E::Neg(b(x)),
            E::Concat(x, y) => E::Concat(b(x), b(y)),
            E::Func(k, args) => E::Func(*k, args.iter().map(|e| e.map_cols(f)).collect()),
        }
    }

    /// The same predicate with the operands of every AND / OR exchanged.
    pub fn commuted(&self) -> E {
        match self {
            E::And(x, y) => E::And(Box::new(y.commuted()), Box::new(x.commuted())),
            E::Or(x, y) => E::Or(Box::new(y.commuted()), Box::new(x.commuted())),
            E::Not(x) => E::Not(Box::new(x.commuted())),
            other => other.clone(),
        }
    }

    pub fn depth(&self) -> usize {
        match self {
            E::Col(..) | E::Lit(..) => 1,
            E::Not(a) | E::Neg(a) | E::IsNull(a, _) | E::Like(a, _, _) => 1 + a.depth(),
            E::Cmp(_, a, b) | E::And(a, b) | E::Or(a, b) | E::Arith(_, a, b) | E::Concat(a, b) => 1 + a.depth().max(b.depth()),
            E::Between(a, b, c, _) => 1 + a.depth().max(b.depth()).max(c.depth()),
            E::In(a, l, _) => 1 + a.depth().max(l.iter().map(|e| e.depth()).max().unwrap_or(0)),
            E::Func(_, l) => 1 + l.iter().map(|e| e.depth()).max().unwrap_or(0),
        }
    }

    pub fn features(&self, out: &mut Vec<&'static str>) {
        match self {
            // an integer literal beyond 2^53 does not survive the lexer (open finding F-C19-int-literal-through-f64)
            E::Lit(Val::Int(i)) if i.unsigned_abs() > (1u64 << 53) => out.push("sql.int_literal_beyond_2p53"),
            E::Col(..) | E::Lit(..) => {}
            E::Cmp(_, a, b) => {
                out.push("expr.cmp");
                a.features(out);
                b.features(out);
            }
            E::And(a, b) => {
                out.push("expr.and");
                a.features(out);
                b.features(out);
            }
            E::Or(a, b) => {
                out.push("expr.or");
                a.features(out);
                b.features(out);
            }
            E::Not(a) => {
                out.push("expr.not");
                a.features(out);
            }
            E::IsNull(a, n) => {
                out.push(if *n { "expr.is_not_null" } else { "expr.is_null" });
                a.features(out);
            }
            E::Between(a, b, c, n) => {
                out.push(if *n { "expr.not_between" } else { "expr.between" });
                a.features(out);
                b.features(out);
                c.features(out);
            }
            E::In(a, l, n) => {
                out.push(if *n { "expr.not_in" } else { "expr.in" });
                a.features(out);
                for e in l {
                    e.features(out);
                }
            }
            E::Like(a, _, n) => {
                out.push(if *n { "expr.not_like" } else { "expr.like" });
                a.features(out);
            }
            E::Arith(op, a, b) => {
                out.push(match op {
                    ArOp::Div => "expr.div",
                    ArOp::Mod => "expr.mod",
                    _ => "expr.arith",
                });
                a.features(out);
                b.features(out);
            }
            E::Neg(a) => {
                out.push("expr.neg");
                a.features(out);
            }
            E::Concat(a, b) => {
                out.push("expr.concat");
                a.features(out);
                b.features(out);
            }
            E::Func(k, args) => {
                out.push(match k {
                    FnKind::Abs | FnKind::Round | FnKind::Floor | FnKind::Ceil => "expr.fn.numeric",
                    FnKind::Length | FnKind::Upper | FnKind::Lower => "expr.fn.text",
                    FnKind::Coalesce => "expr.fn.coalesce",
                    FnKind::NullIf => "expr.fn.nullif",
                });
                for a in args {
                    a.features(out);
                }
            }
        }
    }
}

// ---------------------------------------------------------------------------------------
// queries
// ---------------------------------------------------------------------------------------

#[derive(Clone, Copy, Debug, PartialEq, Eq, Serialize, Deserialize, Hash)]
pub enum JoinKind {
    Inner,
    Left,
    Right,
    Full,
    Cross,
}

#[derive(Clone, Copy, Debug, PartialEq, Eq, Serialize, Deserialize, Hash)]
pub enum AggFn {
    CountStar,
    Count,
    Sum,
    Min,
    Max,
    Avg,
}

#[derive(Clone, Debug, PartialEq, Serialize, Deserialize)]
pub struct TableData {
    pub name: String,
    pub cols: Vec<(String, Ty)>,
    pub rows: Vec<Vec<Val>>,
}

#[derive(Clone, Debug, PartialEq, Serialize, Deserialize)]
pub enum Query {
    /// SELECT [DISTINCT] proj FROM t [WHERE p] [ORDER BY out-col idx [DESC], ...] [LIMIT n [OFFSET m]]
    Select { table: u8, proj: Vec<E>, distinct: bool, pred: Option<E>, order: Vec<(u8, bool)>, limit: Option<(u32, u32)> },
    /// SELECT l.*, r.* FROM l <kind> JOIN r ON on [WHERE p]
    Join { left: u8, right: u8, kind: JoinKind, on: Option<E>, pred: Option<E> },
    /// SELECT group cols, aggregates FROM t [WHERE p] [GROUP BY cols]
    Agg { table: u8, group: Vec<u8>, aggs: Vec<(AggFn, u8)>, pred: Option<E> },
    /// SELECT a.*, b.*, c.* FROM t0 a <k0> JOIN t1 b ON on0 <k1> JOIN t2 c ON on1 [WHERE p]   (left-deep)
    Join3 { tables: [u8; 3], kinds: [JoinKind; 2], ons: [Option<E>; 2], pred: Option<E> },
    /// SELECT col FROM a [WHERE p] UNION [ALL] SELECT col FROM b [WHERE q]
    Union { left: (u8, u8, Option<E>), right: (u8, u8, Option<E>), all: bool },
    /// SELECT group col, aggregates … GROUP BY col ORDER BY col [DESC]
    /// … with `agg_first` the aggregates come before the group column in the select list
    AggOrdered { table: u8, group: u8, aggs: Vec<(AggFn, u8)>, desc: bool, agg_first: bool },
}

pub struct QOut {
    pub rows: Vec<Vec<Val>>,
    /// (output column index, descending) keys the result must be sorted on (validity predicate), if any
    pub order: Vec<(usize, bool)>,
    /// LIMIT/OFFSET over an order with ties: any window of a valid order is acceptable; in that case `rows` is the
    /// full ordered result before the window and the window is given here
    pub window: Option<(usize, usize)>,
}

fn null_last_cmp(a: &Val, b: &Val, desc: bool) -> Ordering {
    // NULLs sort after every value ascending, before every value descending (what the engine does and what
    // PostgreSQL does; SQL leaves it to the implementation — the comparison of results treats NULL position as free)
    match (a.is_null(), b.is_null()) {
        (true, true) => Ordering::Equal,
        (true, false) => {
            if desc {
                Ordering::Less
            } else {
                Ordering::Greater
            }
        }
        (false, true) => {
            if desc {
                Ordering::Greater
            } else {
                Ordering::Less
            }
        }
        _ => {
            let o = cmp_vals(a, b).unwrap_or(Ordering::Equal);
            if desc { o.reverse() } else { o }
        }
    }
}

pub fn sorted_on(rows: &[Vec<Val>], order: &[(usize, bool)]) -> bool {
    rows.windows(2).all(|w| {
        for (c, desc) in order {
            match null_last_cmp(&w[0][*c], &w[1][*c], *desc) {
                Ordering::Less => return true,
                Ordering::Greater => return false,
                Ordering::Equal => {}
            }
        }
        true
    })
}

impl Query {
    /// True if some expression of the query is implementation-defined (overflow, division by zero, …) on some
    /// row or row combination of its tables — whether or not the textbook evaluation order would reach it.
    /// An engine is free to evaluate predicates earlier or later than the model does.
    pub fn undefined_somewhere(&self, tables: &[TableData]) -> bool {
        let bad = |e: &E, ctx: &[&[Val]]| e.eval(ctx).is_err();
        match self {
            Query::Select { table, proj, pred, .. } => tables[*table as usize].rows.iter().any(|r| {
                let ctx: [&[Val]; 1] = [r.as_slice()];
                pred.iter().chain(proj.iter()).any(|e| bad(e, &ctx))
            }),
            Query::Agg { table, pred, .. } => tables[*table as usize].rows.iter().any(|r| {
                let ctx: [&[Val]; 1] = [r.as_slice()];
                pred.iter().any(|e| bad(e, &ctx))
            }),
            Query::Join3 { tables: ts, ons, pred, .. } => {
                let with_null = |t: &TableData| -> Vec<Vec<Val>> { t.rows.iter().cloned().chain(std::iter::once(vec![Val::Null; t.cols.len()])).collect() };
                let (a, b, c) = (with_null(&tables[ts[0] as usize]), with_null(&tables[ts[1] as usize]), with_null(&tables[ts[2] as usize]));
                a.iter().any(|x| b.iter().any(|y| {
                    let c2: [&[Val]; 2] = [x, y];
                    ons[0].iter().any(|e| bad(e, &c2)) || c.iter().any(|z| {
                        let c3: [&[Val]; 3] = [x, y, z];
                        ons[1].iter().chain(pred.iter()).any(|e| bad(e, &c3))
                    })
                }))
            }
            Query::Union { left, right, .. } => [left, right].iter().any(|(t, _, p)| tables[*t as usize].rows.iter().any(|r| {
                let ctx: [&[Val]; 1] = [r.as_slice()];
                p.iter().any(|e| bad(e, &ctx))
            })),
            Query::AggOrdered { .. } => false,
            Query::Join { left, right, on, pred, .. } => {
                let (l, r) = (&tables[*left as usize], &tables[*right as usize]);
                let nl: Vec<Val> = vec![Val::Null; l.cols.len()];
                let nr: Vec<Val> = vec![Val::Null; r.cols.len()];
                let ls: Vec<&[Val]> = l.rows.iter().map(|x| x.as_slice()).chain(std::iter::once(nl.as_slice())).collect();
                let rs: Vec<&[Val]> = r.rows.iter().map(|x| x.as_slice()).chain(std::iter::once(nr.as_slice())).collect();
                ls.iter().any(|a| rs.iter().any(|b| {
                    let ctx: [&[Val]; 2] = [a, b];
                    on.iter().chain(pred.iter()).any(|e| bad(e, &ctx))
                }))
            }
        }
    }

    pub fn eval(&self, tables: &[TableData]) -> Result<QOut, EvalErr> {
        match self {
            Query::Select { table, proj, distinct, pred, order, limit } => {
                let t = &tables[*table as usize];
                let mut out: Vec<Vec<Val>> = vec![];
                for r in &t.rows {
                    let ctx: [&[Val]; 1] = [r.as_slice()];
                    if let Some(p) = pred {
                        if p.eval(&ctx)? != Val::Bool(true) {
                            continue;
                        }
                    }
                    let mut o = vec![];
                    for e in proj {
                        o.push(e.eval(&ctx)?);
                    }
                    out.push(o);
                }
                if *distinct {
                    let mut seen = std::collections::BTreeSet::new();
                    out.retain(|r| seen.insert(r.iter().map(|v| v.key()).collect::<Vec<_>>()));
                }
                let ord: Vec<(usize, bool)> = order.iter().map(|(c, d)| (*c as usize, *d)).collect();
                if !ord.is_empty() {
                    out.sort_by(|a, b| {
                        for (c, desc) in &ord {
                            let o = null_last_cmp(&a[*c], &b[*c], *desc);
                            if o != Ordering::Equal {
                                return o;
                            }
                        }
                        Ordering::Equal
                    });
                }
                Ok(QOut { rows: out, order: ord, window: limit.map(|(n, m)| (n as usize, m as usize)) })
            }
            Query::Join { left, right, kind, on, pred } => {
                let (l, r) = (&tables[*left as usize], &tables[*right as usize]);
                let mut out: Vec<Vec<Val>> = vec![];
                let mut right_matched = vec![false; r.rows.len()];
                for lr in &l.rows {
                    let mut matched = false;
                    for (ri, rr) in r.rows.iter().enumerate() {
                        let ctx: [&[Val]; 2] = [lr.as_slice(), rr.as_slice()];
                        let ok = match (kind, on) {
                            (JoinKind::Cross, _) | (_, None) => true,
                            (_, Some(p)) => p.eval(&ctx)? == Val::Bool(true),
                        };
                        if ok {
                            matched = true;
                            right_matched[ri] = true;
                            let mut row = lr.clone();
                            row.extend(rr.iter().cloned());
                            out.push(row);
                        }
                    }
                    if !matched && matches!(kind, JoinKind::Left | JoinKind::Full) {
                        let mut row = lr.clone();
                        row.extend(std::iter::repeat(Val::Null).take(r.cols.len()));
                        out.push(row);
                    }
                }
                if matches!(kind, JoinKind::Right | JoinKind::Full) {
                    for (ri, rr) in r.rows.iter().enumerate() {
                        if !right_matched[ri] {
                            let mut row: Vec<Val> = std::iter::repeat(Val::Null).take(l.cols.len()).collect();
                            row.extend(rr.iter().cloned());
                            out.push(row);
                        }
                    }
                }
                if let Some(p) = pred {
                    let nl = l.cols.len();
                    let mut kept = vec![];
                    for row in out {
                        let ctx: [&[Val]; 2] = [&row[..nl], &row[nl..]];
                        if p.eval(&ctx)? == Val::Bool(true) {
                            kept.push(row);
                        }
                    }
                    out = kept;
                }
                Ok(QOut { rows: out, order: vec![], window: None })
            }
            Query::Join3 { tables: ts, kinds, ons, pred } => {
                let t: Vec<&TableData> = ts.iter().map(|i| &tables[*i as usize]).collect();
                // generic left-deep step: rows are per-position vectors
                fn step(acc: Vec<Vec<Vec<Val>>>, acc_widths: &[usize], right: &TableData, kind: JoinKind, on: &Option<E>) -> Result<Vec<Vec<Vec<Val>>>, EvalErr> {
                    let mut out = vec![];
                    let mut right_matched = vec![false; right.rows.len()];
                    for l in &acc {
                        let mut matched = false;
                        for (ri, r) in right.rows.iter().enumerate() {
                            let mut ctx: Vec<&[Val]> = l.iter().map(|v| v.as_slice()).collect();
                            ctx.push(r.as_slice());
                            let ok = match (kind, on) {
                                (JoinKind::Cross, _) | (_, None) => true,
                                (_, Some(p)) => p.eval(&ctx)? == Val::Bool(true),
                            };
                            if ok {
                                matched = true;
                                right_matched[ri] = true;
                                let mut row = l.clone();
                                row.push(r.clone());
                                out.push(row);
                            }
                        }
                        if !matched && matches!(kind, JoinKind::Left | JoinKind::Full) {
                            let mut row = l.clone();
                            row.push(vec![Val::Null; right.cols.len()]);
                            out.push(row);
                        }
                    }
                    if matches!(kind, JoinKind::Right | JoinKind::Full) {
                        for (ri, r) in right.rows.iter().enumerate() {
                            if !right_matched[ri] {
                                let mut row: Vec<Vec<Val>> = acc_widths.iter().map(|w| vec![Val::Null; *w]).collect();
                                row.push(r.clone());
                                out.push(row);
                            }
                        }
                    }
                    Ok(out)
                }
                let acc0: Vec<Vec<Vec<Val>>> = t[0].rows.iter().map(|r| vec![r.clone()]).collect();
                let acc1 = step(acc0, &[t[0].cols.len()], t[1], kinds[0], &ons[0])?;
                let acc2 = step(acc1, &[t[0].cols.len(), t[1].cols.len()], t[2], kinds[1], &ons[1])?;
                let mut out = vec![];
                for row in acc2 {
                    if let Some(p) = pred {
                        let ctx: Vec<&[Val]> = row.iter().map(|v| v.as_slice()).collect();
                        if p.eval(&ctx)? != Val::Bool(true) {
                            continue;
                        }
                    }
                    out.push(row.into_iter().flatten().collect());
                }
                Ok(QOut { rows: out, order: vec![], window: None })
            }
            Query::Union { left, right, all } => {
                let mut out: Vec<Vec<Val>> = vec![];
                for (t, c, p) in [left, right] {
                    for r in &tables[*t as usize].rows {
                        let ctx: [&[Val]; 1] = [r.as_slice()];
                        if let Some(p) = p {
                            if p.eval(&ctx)? != Val::Bool(true) {
                                continue;
                            }
                        }
                        out.push(vec![r[*c as usize].clone()]);
                    }
                }
                if !*all {
                    let mut seen = std::collections::BTreeSet::new();
                    out.retain(|r| seen.insert(r[0].key()));
                }
                Ok(QOut { rows: out, order: vec![], window: None })
            }
            Query::AggOrdered { table, group, aggs, desc, agg_first } => {
                let inner = Query::Agg { table: *table, group: vec![*group], aggs: aggs.clone(), pred: None }.eval(tables)?;
                let mut rows = inner.rows;
                rows.sort_by(|a, b| null_last_cmp(&a[0], &b[0], *desc));
                if *agg_first {
                    for r in rows.iter_mut() {
                        let k = r.remove(0);
                        r.push(k);
                    }
                    let last = aggs.len();
                    return Ok(QOut { rows, order: vec![(last, *desc)], window: None });
                }
                Ok(QOut { rows, order: vec![(0, *desc)], window: None })
            }
            Query::Agg { table, group, aggs, pred } => {
                let t = &tables[*table as usize];
                let mut groups: Vec<(Vec<Val>, Vec<&Vec<Val>>)> = vec![];
                for r in &t.rows {
                    let ctx: [&[Val]; 1] = [r.as_slice()];
                    if let Some(p) = pred {
                        if p.eval(&ctx)? != Val::Bool(true) {
                            continue;
                        }
                    }
                    let key: Vec<Val> = group.iter().map(|c| r[*c as usize].clone()).collect();
                    let kk: Vec<String> = key.iter().map(|v| v.key()).collect();
                    match groups.iter_mut().find(|(k, _)| k.iter().map(|v| v.key()).collect::<Vec<_>>() == kk) {
                        Some(g) => g.1.push(r),
                        None => groups.push((key, vec![r])),
                    }
                }
                if group.is_empty() && groups.is_empty() {
                    groups.push((vec![], vec![]));
                }
                let mut out = vec![];
                for (key, rows) in groups {
                    let mut o = key.clone();
                    for (f, c) in aggs {
                        let vals: Vec<&Val> = rows.iter().map(|r| &r[*c as usize]).filter(|v| !v.is_null()).collect();
                        o.push(match f {
                            AggFn::CountStar => Val::Int(rows.len() as i64),
                            AggFn::Count => Val::Int(vals.len() as i64),
                            AggFn::Sum | AggFn::Avg => {
                                if vals.is_empty() {
                                    Val::Null
                                } else {
                                    // integers are summed exactly; a sum that leaves 64 bits or a float sum whose
                                    // value depends on the order of addition is implementation-defined
                                    let sum = if vals.iter().all(|v| matches!(v, Val::Int(_))) {
                                        let s: i128 = vals.iter().map(|v| if let Val::Int(i) = v { *i as i128 } else { 0 }).sum();
                                        if s.abs() >= (1i128 << 53) {
                                            return Err(EvalErr::Undefined("integer sum beyond 2^53".into()));
                                        }
                                        s as f64
                                    } else {
                                        let fs: Vec<f64> = vals.iter().map(|v| v.as_f64().unwrap_or(0.0)).collect();
                                        let fwd: f64 = fs.iter().sum();
                                        let bwd: f64 = fs.iter().rev().sum();
                                        if fwd != bwd {
                                            return Err(EvalErr::Undefined("float sum depends on the order of addition".into()));
                                        }
                                        fwd
                                    };
                                    if matches!(f, AggFn::Sum) { Val::Dbl(sum) } else { Val::Dbl(sum / vals.len() as f64) }
                                }
                            }
                            AggFn::Min => vals.iter().fold(None::<&Val>, |m, v| match m {
                                None => Some(v),
                                Some(x) => Some(if cmp_vals(v, x) == Some(Ordering::Less) { v } else { x }),
                            }).cloned().unwrap_or(Val::Null),
                            AggFn::Max => vals.iter().fold(None::<&Val>, |m, v| match m {
                                None => Some(v),
                                Some(x) => Some(if cmp_vals(v, x) == Some(Ordering::Greater) { v } else { x }),
                            }).cloned().unwrap_or(Val::Null),
                        });
                    }
                    out.push(o);
                }
                Ok(QOut { rows: out, order: vec![], window: None })
            }
        }
    }

    pub fn sql(&self, tables: &[TableData], full: bool) -> String {
        match self {
            Query::Select { table, proj, distinct, pred, order, limit } => {
                let t = &tables[*table as usize];
                let names = |_: u8, c: u8| t.cols[c as usize].0.clone();
                let mut s = format!("SELECT {}{} FROM {}", if *distinct { "DISTINCT " } else { "" }, proj.iter().map(|e| e.sql(&names, full)).collect::<Vec<_>>().join(", "), t.name);
                if let Some(p) = pred {
                    s += &format!(" WHERE {}", p.sql(&names, full));
                }
                if !order.is_empty() {
                    // order keys are output columns that are plain column references
                    let keys: Vec<String> = order.iter().map(|(c, d)| format!("{}{}", proj[*c as usize].sql(&names, full), if *d { " DESC" } else { "" })).collect();
                    s += &format!(" ORDER BY {}", keys.join(", "));
                }
                if let Some((n, m)) = limit {
                    s += &format!(" LIMIT {n}");
                    if *m > 0 {
                        s += &format!(" OFFSET {m}");
                    }
                }
                s
            }
            Query::Join { left, right, kind, on, pred } => {
                let (l, r) = (&tables[*left as usize], &tables[*right as usize]);
                let names = |t: u8, c: u8| if t == 0 { format!("a.{}", l.cols[c as usize].0) } else { format!("b.{}", r.cols[c as usize].0) };
                let proj: Vec<String> = l.cols.iter().map(|c| format!("a.{}", c.0)).chain(r.cols.iter().map(|c| format!("b.{}", c.0))).collect();
                let j = match kind {
                    JoinKind::Inner => "JOIN",
                    JoinKind::Left => "LEFT JOIN",
                    JoinKind::Right => "RIGHT JOIN",
                    JoinKind::Full => "FULL JOIN",
                    JoinKind::Cross => "CROSS JOIN",
                };
                let mut s = format!("SELECT {} FROM {} AS a {} {} AS b", proj.join(", "), l.name, j, r.name);
                if let (false, Some(p)) = (matches!(kind, JoinKind::Cross), on) {
                    s += &format!(" ON {}", p.sql(&names, full));
                }
                if let Some(p) = pred {
                    s += &format!(" WHERE {}", p.sql(&names, full));
                }
                s
            }
            Query::Join3 { tables: ts, kinds, ons, pred } => {
                let t: Vec<&TableData> = ts.iter().map(|i| &tables[*i as usize]).collect();
                let al = ["a", "b", "c"];
                let names = |p: u8, c: u8| format!("{}.{}", al[p as usize], t[p as usize].cols[c as usize].0);
                let proj: Vec<String> = (0..3).flat_map(|p| t[p].cols.iter().map(move |c| format!("{}.{}", al[p], c.0)).collect::<Vec<_>>()).collect();
                let kw = |k: JoinKind| match k {
                    JoinKind::Inner => "JOIN",
                    JoinKind::Left => "LEFT JOIN",
                    JoinKind::Right => "RIGHT JOIN",
                    JoinKind::Full => "FULL JOIN",
                    JoinKind::Cross => "CROSS JOIN",
                };
                let mut s = format!("SELECT {} FROM {} AS a", proj.join(", "), t[0].name);
                for j in 0..2 {
                    s += &format!(" {} {} AS {}", kw(kinds[j]), t[j + 1].name, al[j + 1]);
                    if let (false, Some(p)) = (matches!(kinds[j], JoinKind::Cross), &ons[j]) {
                        s += &format!(" ON {}", p.sql(&names, full));
                    }
                }
                if let Some(p) = pred {
                    s += &format!(" WHERE {}", p.sql(&names, full));
                }
                s
            }
            Query::Union { left, right, all } => {
                let part = |(t, c, p): &(u8, u8, Option<E>)| {
                    let tb = &tables[*t as usize];
                    let names = |_: u8, c: u8| tb.cols[c as usize].0.clone();
                    let mut s = format!("SELECT {} FROM {}", tb.cols[*c as usize].0, tb.name);
                    if let Some(p) = p {
                        s += &format!(" WHERE {}", p.sql(&names, full));
                    }
                    s
                };
                format!("{} UNION {}{}", part(left), if *all { "ALL " } else { "" }, part(right))
            }
            Query::AggOrdered { table, group, aggs, desc, agg_first } => {
                let t = &tables[*table as usize];
                let g = t.cols[*group as usize].0.clone();
                let mut items: Vec<String> = vec![];
                for (f, c) in aggs {
                    let cn = &t.cols[*c as usize].0;
                    items.push(match f {
                        AggFn::CountStar => "COUNT(*)".to_string(),
                        AggFn::Count => format!("COUNT({cn})"),
                        AggFn::Sum => format!("SUM({cn})"),
                        AggFn::Min => format!("MIN({cn})"),
                        AggFn::Max => format!("MAX({cn})"),
                        AggFn::Avg => format!("AVG({cn})"),
                    });
                }
                if *agg_first {
                    items.push(g.clone());
                } else {
                    items.insert(0, g.clone());
                }
                let _ = full;
                format!("SELECT {} FROM {} GROUP BY {g} ORDER BY {g}{}", items.join(", "), t.name, if *desc { " DESC" } else { "" })
            }
            Query::Agg { table, group, aggs, pred } => {
                let t = &tables[*table as usize];
                let names = |_: u8, c: u8| t.cols[c as usize].0.clone();
                let mut items: Vec<String> = group.iter().map(|c| t.cols[*c as usize].0.clone()).collect();
                for (f, c) in aggs {
                    let cn = &t.cols[*c as usize].0;
                    items.push(match f {
                        AggFn::CountStar => "COUNT(*)".to_string(),
                        AggFn::Count => format!("COUNT({cn})"),
                        AggFn::Sum => format!("SUM({cn})"),
                        AggFn::Min => format!("MIN({cn})"),
                        AggFn::Max => format!("MAX({cn})"),
                        AggFn::Avg => format!("AVG({cn})"),
                    });
                }
                let mut s = format!("SELECT {} FROM {}", items.join(", "), t.name);
                if let Some(p) = pred {
                    s += &format!(" WHERE {}", p.sql(&names, full));
                }
                if !group.is_empty() {
                    s += &format!(" GROUP BY {}", group.iter().map(|c| t.cols[*c as usize].0.clone()).collect::<Vec<_>>().join(", "));
                }
                s
            }
        }
    }
}

/// Compares an engine result with the model's: multiset equality, numeric cells by value with a
/// relative tolerance for floats, ORDER BY as a validity predicate, LIMIT/OFFSET as "some valid window".
pub fn compare(engine: &[Vec<Val>], want: &QOut) -> Result<(), String> {
    let close = |a: &Val, b: &Val| -> bool {
        match (a, b) {
            (Val::Null, Val::Null) => true,
            (Val::Text(x), Val::Text(y)) => x == y,
            (Val::Bool(x), Val::Bool(y)) => x == y,
            _ => match (a.as_f64(), b.as_f64()) {
                (Some(x), Some(y)) => x == y || (x - y).abs() <= 1e-9 * x.abs().max(y.abs()).max(1.0),
                _ => false,
            },
        }
    };
    let row_eq = |a: &Vec<Val>, b: &Vec<Val>| a.len() == b.len() && a.iter().zip(b).all(|(x, y)| close(x, y));
    let contains_all = |sup: &[Vec<Val>], sub: &[Vec<Val>]| -> bool {
        let mut used = vec![false; sup.len()];
        sub.iter().all(|r| {
            if let Some(i) = (0..sup.len()).find(|i| !used[*i] && row_eq(&sup[*i], r)) {
                used[i] = true;
                true
            } else {
                false
            }
        })
    };
    match want.window {
        None => {
            if engine.len() != want.rows.len() || !contains_all(&want.rows, engine) {
                return Err("row multisets differ".into());
            }
        }
        Some((n, m)) => {
            let expect_len = want.rows.len().saturating_sub(m).min(n);
            if engine.len() != expect_len {
                return Err(format!("LIMIT {n} OFFSET {m} over {} rows must return {expect_len} rows, got {}", want.rows.len(), engine.len()));
            }
            if !contains_all(&want.rows, engine) {
                return Err("LIMIT/OFFSET result is not a subset of the full result".into());
            }
            if want.order.is_empty() {
                return Ok(()); // without ORDER BY any n rows are acceptable
            }
            // with an order: every returned row must be allowed at its position: compare on the order keys only
            let keys = |r: &Vec<Val>| want.order.iter().map(|(c, _)| r[*c].key()).collect::<Vec<_>>();
            let full_keys: Vec<Vec<String>> = want.rows.iter().map(keys).collect();
            for (i, r) in engine.iter().enumerate() {
                if full_keys.get(m + i) != Some(&keys(r)) {
                    return Err(format!("row {i} of the LIMIT/OFFSET window has order keys {:?}, a valid order has {:?} there", keys(r), full_keys.get(m + i)));
                }
            }
        }
    }
    if !want.order.is_empty() && !sorted_on(engine, &want.order) {
        return Err("result is not sorted on the ORDER BY keys".into());
    }
    Ok(())
}
