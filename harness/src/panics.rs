//! Process-wide panic recorder. Panics inside the engine's pool workers are observable here.
use std::sync::Mutex;

#[derive(Clone, Debug)]
pub struct PanicRec {
    pub msg: String,
    pub file: String,
    pub line: u32,
    pub thread: String,
}

impl PanicRec {
    /// (file, normalised message): digits collapsed so the signature survives unrelated edits.
    pub fn signature(&self) -> String {
        let mut m = String::new();
        let mut last_digit = false;
        for ch in self.msg.chars().take(160) {
            if ch.is_ascii_digit() {
                if !last_digit {
                    m.push('#');
                }
                last_digit = true;
            } else {
                last_digit = false;
                m.push(ch);
            }
        }
        let file = self.file.rsplit("axmos-db/src/").next().unwrap_or(&self.file).to_string();
        format!("{file}: {m}")
    }
}

static LOG: Mutex<Vec<PanicRec>> = Mutex::new(Vec::new());

pub fn install() {
    let verbose = std::env::var("VERIF_VERBOSE").is_ok();
    std::panic::set_hook(Box::new(move |info| {
        let msg = if let Some(s) = info.payload().downcast_ref::<&str>() {
            s.to_string()
        } else if let Some(s) = info.payload().downcast_ref::<String>() {
            s.clone()
        } else {
            "<non-string panic payload>".to_string()
        };
        let (file, line) = info.location().map(|l| (l.file().to_string(), l.line())).unwrap_or_default();
        let thread = std::thread::current().name().unwrap_or("?").to_string();
        if verbose {
            eprintln!("[panic] {file}:{line} ({thread}): {msg}");
            if std::env::var("VERIF_BT").is_ok() {
                eprintln!("{}", std::backtrace::Backtrace::force_capture());
            }
        }
        LOG.lock().unwrap_or_else(|e| e.into_inner()).push(PanicRec { msg, file, line, thread });
    }));
}

pub fn take() -> Vec<PanicRec> {
    std::mem::take(&mut *LOG.lock().unwrap_or_else(|e| e.into_inner()))
}

pub fn count() -> usize {
    LOG.lock().unwrap_or_else(|e| e.into_inner()).len()
}
