//! Workload grammar shared by the SQL-level history checks (DESIGN.md §2): abstract steps
//! whose table/column/value references are indices resolved at run time against the model's
//! current view (so every shrunk case is still meaningful), proptest strategies for them, and
//! the interpreter that applies each step to the engine and to the model.

use crate::dbx::{self, Cfg, Db, Out};
use crate::engine::{Failure, pick_idx};
use crate::sqlmodel::*;
use proptest::prelude::*;
use serde::{Deserialize, Serialize};
use std::collections::{BTreeMap, BTreeSet};

// ---------------------------------------------------------------------------------------
// abstract statements
// ---------------------------------------------------------------------------------------

#[derive(Clone, Debug, Serialize, Deserialize, Hash, PartialEq)]
pub enum AVal {
    Null,
    /// index into the per-type value pool
    Pool(u8),
    /// long text (n bytes) / large number
    Big(u16),
}

#[derive(Clone, Debug, Serialize, Deserialize, Hash, PartialEq)]
pub enum APred {
    True,
    Cmp { col: u16, op: u8, val: AVal },
    IsNull { col: u16 },
    And(Box<APred>, Box<APred>),
}

#[derive(Clone, Debug, Serialize, Deserialize, Hash, PartialEq)]
pub struct ACol {
    pub ty: u8,
    pub not_null: bool,
    pub default: Option<AVal>,
}

#[derive(Clone, Debug, Serialize, Deserialize, Hash, PartialEq)]
pub enum BadKind {
    UnknownTable,
    UnknownColumn,
    DuplicateKey,
    NullIntoNotNull,
    Syntax,
    CreateExisting,
}

#[derive(Clone, Debug, Serialize, Deserialize, Hash, PartialEq)]
pub enum AStmt {
    Create { name: u8, cols: Vec<ACol>, pk: Option<u8>, uniq: Option<u8> },
    Drop { t: u16 },
    CreateIndex { t: u16, col: u16 },
    Insert { t: u16, rows: Vec<Vec<AVal>>, partial: bool },
    Update { t: u16, col: u16, val: AVal, add: Option<i8>, pred: APred },
    Delete { t: u16, pred: APred },
    Select { t: u16, pred: APred },
    Bad { kind: BadKind, t: u16 },
    AddColumn { t: u16, ty: u8, default: Option<AVal> },
    /// ALTER COLUMN: 0 SET DEFAULT, 1 DROP DEFAULT, 2 SET NOT NULL, 3 DROP NOT NULL
    AlterCol { t: u16, col: u16, action: u8, val: AVal },
    /// CREATE TABLE IF NOT EXISTS on an existing table (a no-op)
    CreateIfNotExists { t: u16 },
    DropColumn { t: u16, col: u16 },
}

#[derive(Clone, Debug, Serialize, Deserialize, Hash, PartialEq)]
pub enum Step {
    Auto(AStmt),
    Begin(u8),
    Exec(u8, AStmt),
    Commit(u8),
    Rollback(u8),
    DropSession(u8),
    Batch(Vec<AStmt>),
    Flush,
    Vacuum,
    Reopen(u8),
    /// n cheap autocommit reads: consumes n transaction ids (id-dependent bookkeeping: bitmaps, wrap-arounds)
    Burn(u16),
    /// A read-only bystander transaction outside the sessions the interpreter models: 0 begin, 1 begin and read a
    /// table once, 2 commit, 3 roll back, 4 drop. It never reads again after its begin, so nothing others do can
    /// depend on it - and nothing it does (it does nothing) may change what others see.
    Bystander(u8),
}

impl AStmt {
    pub fn kind(&self) -> &'static str {
        match self {
            AStmt::Create { .. } => "create_table",
            AStmt::Drop { .. } => "drop_table",
            AStmt::CreateIndex { .. } => "create_index",
            AStmt::Insert { .. } => "insert",
            AStmt::Update { .. } => "update",
            AStmt::Delete { .. } => "delete",
            AStmt::Select { .. } => "select",
            AStmt::Bad { .. } => "bad_stmt",
            AStmt::AddColumn { .. } => "add_column",
            AStmt::AlterCol { .. } => "alter_column",
            AStmt::CreateIfNotExists { .. } => "create_if_not_exists",
            AStmt::DropColumn { .. } => "drop_column",
        }
    }
}

// ---------------------------------------------------------------------------------------
// generator options and strategies
// ---------------------------------------------------------------------------------------

#[derive(Clone, Debug)]
pub struct GenOpts {
    pub max_steps: usize,
    pub sessions: u8,
    pub ddl: bool,
    pub drop_table: bool,
    pub create_index: bool,
    pub update: bool,
    /// UPDATE of columns that belong to a unique constraint / index
    pub update_indexed: bool,
    pub delete: bool,
    pub bad: bool,
    pub batch: bool,
    pub rollback: bool,
    pub drop_session: bool,
    pub flush: bool,
    pub vacuum: bool,
    pub reopen: bool,
    pub big_values: bool,
    pub bool_cols: bool,
    pub double_cols: bool,
    pub defaults: bool,
    pub constraints: bool,
    pub composite_keys: bool,
    pub alter: bool,
    pub alter_col: bool,
    pub bystander: bool,
    pub w_select: u32,
    pub w_begin: u32,
    pub max_rows_per_insert: usize,
}

impl Default for GenOpts {
    fn default() -> Self {
        GenOpts {
            max_steps: 24,
            sessions: 1,
            ddl: true,
            drop_table: true,
            create_index: true,
            update: true,
            update_indexed: true,
            delete: true,
            bad: true,
            batch: true,
            rollback: true,
            drop_session: true,
            flush: false,
            vacuum: false,
            reopen: false,
            big_values: false,
            bool_cols: false,
            double_cols: true,
            defaults: true,
            constraints: true,
            composite_keys: false,
            alter: false,
            alter_col: false,
            bystander: true,
            w_select: 4,
            w_begin: 3,
            max_rows_per_insert: 3,
        }
    }
}

/// The table a statement works on (None: unknown / not table-bound).
pub fn stmt_table(s: &Stmt) -> Option<String> {
    match s {
        Stmt::CreateTable(d) => Some(d.name.clone()),
        Stmt::DropTable { table } | Stmt::CreateUniqueIndex { table, .. } | Stmt::Insert { table, .. } | Stmt::Update { table, .. } | Stmt::Delete { table, .. } | Stmt::Select { table, .. } | Stmt::AddColumn { table, .. } | Stmt::DropColumn { table, .. } | Stmt::AlterCol { table, .. } => Some(table.clone()),
        Stmt::NoOpDdl { .. } | Stmt::Bad { .. } => None,
    }
}

pub fn gen_aval(big: bool) -> BoxedStrategy<AVal> {
    if big {
        prop_oneof![2 => Just(AVal::Null), 10 => (0u8..12).prop_map(AVal::Pool), 1 => (0u16..2000).prop_map(AVal::Big)].boxed()
    } else {
        prop_oneof![2 => Just(AVal::Null), 10 => (0u8..12).prop_map(AVal::Pool)].boxed()
    }
}

pub fn gen_apred(big: bool) -> BoxedStrategy<APred> {
    let leaf = prop_oneof![
        3 => Just(APred::True),
        8 => (any::<u16>(), 0u8..6, gen_aval(big)).prop_map(|(col, op, val)| APred::Cmp { col, op, val }),
        1 => any::<u16>().prop_map(|col| APred::IsNull { col }),
    ];
    let leaf2 = leaf.clone();
    prop_oneof![6 => leaf, 1 => (leaf2.clone(), leaf2).prop_map(|(a, b)| APred::And(Box::new(a), Box::new(b)))].boxed()
}

fn gen_acol(o: &GenOpts) -> BoxedStrategy<ACol> {
    let mut tys = vec![0u8, 0, 1, 3, 3];
    if o.double_cols {
        tys.push(2);
    }
    if o.bool_cols {
        tys.push(4);
    }
    let defaults = o.defaults;
    let def: BoxedStrategy<Option<AVal>> = if defaults { prop::option::weighted(0.2, (0u8..12).prop_map(AVal::Pool)).boxed() } else { Just(None).boxed() };
    (proptest::sample::select(tys), prop::bool::weighted(0.15), def)
        .prop_map(|(ty, not_null, default)| ACol { ty, not_null, default })
        .boxed()
}

pub fn gen_create(o: &GenOpts) -> BoxedStrategy<AStmt> {
    let maxpk = if o.composite_keys { 4u8 } else { 2u8 };
    let (pk, uq): (BoxedStrategy<Option<u8>>, BoxedStrategy<Option<u8>>) = if o.constraints { (prop::option::weighted(0.6, 0u8..maxpk).boxed(), prop::option::weighted(0.24, 0u8..4).boxed()) } else { (Just(None).boxed(), Just(None).boxed()) };
    (0u8..3, prop::collection::vec(gen_acol(o), 1..5), pk, uq)
        .prop_map(|(name, cols, pk, uniq)| AStmt::Create { name, cols, pk, uniq })
        .boxed()
}

pub fn gen_astmt(o: &GenOpts) -> BoxedStrategy<AStmt> {
    let big = o.big_values;
    let mut v: Vec<(u32, BoxedStrategy<AStmt>)> = vec![];
    let maxr = o.max_rows_per_insert.max(1);
    v.push((10, (any::<u16>(), prop::collection::vec(prop::collection::vec(gen_aval(big), 5), 1..=maxr), prop::bool::weighted(0.2)).prop_map(|(t, rows, partial)| AStmt::Insert { t, rows, partial }).boxed()));
    v.push((o.w_select, (any::<u16>(), gen_apred(big)).prop_map(|(t, pred)| AStmt::Select { t, pred }).boxed()));
    if o.update {
        v.push((6, (any::<u16>(), any::<u16>(), gen_aval(big), prop::option::weighted(0.3, -3i8..4), gen_apred(big)).prop_map(|(t, col, val, add, pred)| AStmt::Update { t, col, val, add, pred }).boxed()));
    }
    if o.delete {
        v.push((4, (any::<u16>(), gen_apred(big)).prop_map(|(t, pred)| AStmt::Delete { t, pred }).boxed()));
    }
    if o.ddl {
        v.push((3, gen_create(o)));
        if o.drop_table {
            v.push((1, any::<u16>().prop_map(|t| AStmt::Drop { t }).boxed()));
        }
        if o.create_index {
            v.push((1, (any::<u16>(), any::<u16>()).prop_map(|(t, col)| AStmt::CreateIndex { t, col }).boxed()));
        }
        v.push((1, any::<u16>().prop_map(|t| AStmt::CreateIfNotExists { t }).boxed()));
    }
    if o.alter {
        v.push((2, (any::<u16>(), 0u8..5, prop::option::weighted(0.3, (0u8..12).prop_map(AVal::Pool))).prop_map(|(t, ty, default)| AStmt::AddColumn { t, ty, default }).boxed()));
        v.push((2, (any::<u16>(), any::<u16>()).prop_map(|(t, col)| AStmt::DropColumn { t, col }).boxed()));
    }
    if o.alter || o.alter_col {
        v.push((3, (any::<u16>(), any::<u16>(), 0u8..4, (0u8..12).prop_map(AVal::Pool)).prop_map(|(t, col, action, val)| AStmt::AlterCol { t, col, action, val }).boxed()));
    }
    if o.bad {
        v.push((
            2,
            (
                prop_oneof![Just(BadKind::UnknownTable), Just(BadKind::UnknownColumn), Just(BadKind::DuplicateKey), Just(BadKind::NullIntoNotNull), Just(BadKind::Syntax), Just(BadKind::CreateExisting)],
                any::<u16>(),
            )
                .prop_map(|(kind, t)| AStmt::Bad { kind, t })
                .boxed(),
        ));
    }
    proptest::strategy::Union::new_weighted(v).boxed()
}

/// A history: an initial CREATE TABLE + a few inserts (so that most cases have data), then steps.
pub fn gen_history(o: &GenOpts) -> BoxedStrategy<Vec<Step>> {
    let o2 = o.clone();
    let stmt = gen_astmt(o);
    let ns = o.sessions.max(1);
    let mut v: Vec<(u32, BoxedStrategy<Step>)> = vec![];
    v.push((8, stmt.clone().prop_map(Step::Auto).boxed()));
    v.push((o.w_begin, (0..ns).prop_map(Step::Begin).boxed()));
    v.push((12, ((0..ns), stmt.clone()).prop_map(|(s, st)| Step::Exec(s, st)).boxed()));
    v.push((3, (0..ns).prop_map(Step::Commit).boxed()));
    if o.rollback {
        v.push((3, (0..ns).prop_map(Step::Rollback).boxed()));
    }
    if o.drop_session {
        v.push((1, (0..ns).prop_map(Step::DropSession).boxed()));
    }
    if o.batch {
        v.push((1, prop::collection::vec(stmt.clone(), 1..4).prop_map(Step::Batch).boxed()));
    }
    if o.flush {
        v.push((1, Just(Step::Flush).boxed()));
    }
    if o.vacuum {
        v.push((1, Just(Step::Vacuum).boxed()));
    }
    if o.reopen {
        v.push((1, (0u8..6).prop_map(Step::Reopen).boxed()));
    }
    if o.bystander {
        v.push((2, (0u8..5).prop_map(Step::Bystander).boxed()));
    }
    let step = proptest::strategy::Union::new_weighted(v);
    let prefix = (gen_create(&o2), prop::collection::vec(prop::collection::vec(gen_aval(false), 5), 1..4)).prop_map(|(c, rows)| vec![Step::Auto(c), Step::Auto(AStmt::Insert { t: 0, rows, partial: false })]);
    (prefix, prop::collection::vec(step, 1..o.max_steps.max(2)))
        .prop_map(|(mut p, s)| {
            p.extend(s);
            p
        })
        .boxed()
}

// ---------------------------------------------------------------------------------------
// resolution against the model view
// ---------------------------------------------------------------------------------------

const INT_POOL: [i64; 12] = [0, 1, 2, 3, 4, 5, -1, 7, 10, 100, -100, 2147483647];
const BIG_POOL: [i64; 12] = [0, 1, 2, 3, 4, 5, -1, 7, 4294967296, -4294967296, 9007199254740991, -9007199254740991];
const DBL_POOL: [f64; 12] = [0.0, 1.0, 2.0, 0.5, -0.5, 1.5, 2.25, -1.0, 100.125, 3.0, 4.0, -100.75];
const TEXT_POOL: [&str; 12] = ["", "a", "b", "ab", "ba", "abc", "zz", "it's", "Ünï", "a b", "B", "0"];

pub fn resolve_val(v: &AVal, ty: Ty) -> Val {
    match v {
        AVal::Null => Val::Null,
        AVal::Pool(i) => {
            let i = *i as usize % 12;
            match ty {
                Ty::Int => Val::Int(INT_POOL[i]),
                Ty::BigInt => Val::Int(BIG_POOL[i]),
                Ty::Double => Val::Dbl(DBL_POOL[i]),
                Ty::Text => Val::Text(TEXT_POOL[i].to_string()),
                Ty::Bool => Val::Bool(i % 2 == 1),
            }
        }
        AVal::Big(n) => match ty {
            Ty::Int => Val::Int(1000 + *n as i64),
            Ty::BigInt => Val::Int(1_000_000_007i64 * (*n as i64 + 1)),
            Ty::Double => Val::Dbl(*n as f64 * 0.25),
            Ty::Text => Val::Text((0..*n as usize).map(|k| (b'a' + ((k * 7 + *n as usize) % 26) as u8) as char).collect()),
            Ty::Bool => Val::Bool(n % 2 == 1),
        },
    }
}

fn ty_of(i: u8) -> Ty {
    [Ty::Int, Ty::BigInt, Ty::Double, Ty::Text, Ty::Bool][i as usize % 5]
}

fn resolve_pred(p: &APred, def: &TableDef) -> Pred {
    match p {
        APred::True => Pred::True,
        APred::Cmp { col, op, val } => {
            let c = pick_idx(*col, def.cols.len());
            let ty = def.cols[c].ty;
            let v = resolve_val(val, ty);
            if v.is_null() {
                return Pred::IsNull { col: c };
            }
            // text and bool: equality only (ordering of text is not this model's business)
            let op = match ty {
                Ty::Text | Ty::Bool => [CmpOp::Eq, CmpOp::Ne][*op as usize % 2],
                _ => [CmpOp::Eq, CmpOp::Ne, CmpOp::Lt, CmpOp::Le, CmpOp::Gt, CmpOp::Ge][*op as usize % 6],
            };
            Pred::Cmp { col: c, op, val: v }
        }
        APred::IsNull { col } => Pred::IsNull { col: pick_idx(*col, def.cols.len()) },
        APred::And(a, b) => match (resolve_pred(a, def), resolve_pred(b, def)) {
            (Pred::True, x) | (x, Pred::True) => x,
            (x, y) => Pred::And(Box::new(x), Box::new(y)),
        },
    }
}

/// Feature tags a resolved statement carries (for finding signatures and exclusions).
pub fn stmt_tags(s: &Stmt, view: &State) -> Vec<String> {
    let mut t = vec![];
    match s {
        Stmt::CreateTable(_) => t.push("ddl.create_table".into()),
        Stmt::DropTable { .. } => t.push("ddl.drop_table".into()),
        Stmt::CreateUniqueIndex { .. } => {
            t.push("ddl.create_index".into());
            if create_index_hits_duplicates(view, s) {
                t.push("ddl.create_index_on_duplicates".into());
            }
            if let Stmt::CreateUniqueIndex { table, cols, .. } = s {
                if let Some(tb) = view.tables.get(table) {
                    if tb.rows.values().any(|r| cols.iter().any(|c| r.get(*c).map(|v| v.is_null()).unwrap_or(false))) {
                        t.push("unique.null_key".into());
                    }
                }
            }
        }
        Stmt::Insert { table, cols, rows } => {
            t.push("insert".into());
            if rows.len() > 1 {
                t.push("insert.multi_row".into());
                let mut v = view.clone();
                let mut k = u64::MAX / 2;
                if matches!(exec_model(&mut v, &mut k, s).0, MOut::Err(..)) {
                    // does the first row alone succeed? then the statement fails after a partial effect
                    let first = Stmt::Insert { table: table.clone(), cols: cols.clone(), rows: vec![rows[0].clone()] };
                    let mut v2 = view.clone();
                    if !matches!(exec_model(&mut v2, &mut k, &first).0, MOut::Err(..)) {
                        t.push("stmt.fails_midway".into());
                    }
                }
            }
            if let Some(tb) = view.tables.get(table) {
                let null_key = rows.iter().any(|r| {
                    tb.def.uniques.iter().enumerate().any(|(ui, u)| {
                        Some(ui) != tb.def.pk
                            && u.iter().any(|c| match cols {
                                None => r.get(*c).map(|v| v.is_null()).unwrap_or(false),
                                Some(cs) => match cs.iter().position(|x| x == c) {
                                    Some(p) => r[p].is_null(),
                                    None => tb.def.cols[*c].default.is_none(),
                                },
                            })
                    })
                });
                if null_key {
                    t.push("unique.null_key".into());
                }
                if let Some(cs) = cols {
                    if tb.def.cols.iter().enumerate().any(|(i, c)| !cs.contains(&i) && c.default.is_some()) {
                        t.push("insert.omitted_default".into());
                    }
                }
            }
        }
        Stmt::Update { table, col, set, pred } => {
            t.push("update".into());
            if matches!(set, SetExpr::Lit(Val::Null)) {
                t.push("update.set_null".into());
            }
            if let Some(tb) = view.tables.get(table) {
                if !tb.def.uniques.is_empty() {
                    t.push("update.table_has_index".into());
                }
                let n = tb.rows.values().filter(|r| pred.eval(r) == Some(true)).count();
                let mut v = view.clone();
                let mut k = u64::MAX / 2;
                if n > 1 && matches!(exec_model(&mut v, &mut k, s).0, MOut::Err(..)) {
                    t.push("stmt.fails_midway".into());
                    t.push("update.fails_midway".into());
                }
            }
            if let Some(tb) = view.tables.get(table) {
                if tb.def.uniques.iter().any(|u| u.contains(col)) {
                    t.push("update.indexed_column".into());
                    if matches!(s, Stmt::Update { set: SetExpr::Lit(Val::Null), .. }) {
                        t.push("unique.null_key".into());
                    }
                }
            }
        }
        Stmt::Delete { .. } => t.push("delete".into()),
        Stmt::Select { .. } => t.push("select".into()),
        Stmt::Bad { .. } => t.push("bad_stmt".into()),
        Stmt::AlterCol { table, col, change } => {
            t.push("ddl.alter_column".into());
            if *change == ColChange::SetNotNull && view.tables.get(table).map(|tb| tb.rows.values().any(|r| r[*col].is_null())).unwrap_or(false) {
                t.push("ddl.set_not_null_on_column_with_nulls".into());
            }
            t.push(match change {
                ColChange::SetDefault(_) | ColChange::DropDefault => "ddl.alter_column_default",
                ColChange::SetNotNull | ColChange::DropNotNull => "ddl.alter_column_not_null",
            }.into());
        }
        Stmt::NoOpDdl { .. } => t.push("ddl.create_if_not_exists".into()),
        Stmt::AddColumn { table, col } => {
            t.push("ddl.add_column".into());
            if col.default.is_some() {
                t.push("ddl.add_column_default".into());
            }
            if view.tables.get(table).map(|tb| !tb.rows.is_empty()).unwrap_or(false) {
                t.push("ddl.alter_populated".into());
            }
        }
        Stmt::DropColumn { table, col } => {
            t.push("ddl.drop_column".into());
            if let Some(tb) = view.tables.get(table) {
                if !tb.rows.is_empty() {
                    t.push("ddl.alter_populated".into());
                }
                if *col + 1 != tb.def.cols.len() {
                    t.push("ddl.drop_column_not_last".into());
                }
            }
        }
    }
    t
}

pub fn resolve(a: &AStmt, view: &State) -> Stmt {
    let names: Vec<&String> = view.tables.keys().collect();
    let pick_table = |t: u16| -> Option<&Table> {
        if names.is_empty() {
            None
        } else {
            view.tables.get(names[pick_idx(t, names.len())])
        }
    };
    let missing = |what: &str| Stmt::Bad { sql: format!("SELECT * FROM nosuch_{what}"), why: "no table exists".into() };
    match a {
        AStmt::Create { name, cols, pk, uniq } => {
            let cols: Vec<ColDef> = cols
                .iter()
                .enumerate()
                .map(|(i, c)| {
                    let ty = ty_of(c.ty);
                    ColDef { name: format!("c{i}"), ty, not_null: c.not_null, default: c.default.as_ref().map(|d| resolve_val(d, ty)).filter(|v| !v.is_null()) }
                })
                .collect();
            let mut uniques = vec![];
            let mut pkidx = None;
            if let Some(p) = pk {
                let c = *p as usize % cols.len();
                // composite key when the table has >= 3 columns and p is odd
                let key = if cols.len() >= 3 && *p >= 2 { vec![c, (c + 1) % cols.len()] } else { vec![c] };
                uniques.push(key);
                pkidx = Some(0);
            }
            if let Some(u) = uniq {
                let c = *u as usize % cols.len();
                if !uniques.contains(&vec![c]) {
                    uniques.push(vec![c]);
                }
            }
            let mut cols = cols;
            if pkidx.is_some() {
                for c in &uniques[0] {
                    cols[*c].not_null = true; // PRIMARY KEY implies NOT NULL
                    cols[*c].default = None;
                }
            }
            Stmt::CreateTable(TableDef { name: format!("t{}", name % 3), cols, uniques, pk: pkidx, index_names: vec![] })
        }
        AStmt::Drop { t } => match pick_table(*t) {
            Some(tb) => Stmt::DropTable { table: tb.def.name.clone() },
            None => Stmt::Bad { sql: "DROP TABLE nosuch_table".into(), why: "no table".into() },
        },
        AStmt::CreateIndex { t, col } => match pick_table(*t) {
            Some(tb) => {
                let c = pick_idx(*col, tb.def.cols.len());
                Stmt::CreateUniqueIndex { name: format!("ix_{}_{}", tb.def.name, tb.def.cols[c].name), table: tb.def.name.clone(), cols: vec![c] }
            }
            None => missing("ix"),
        },
        AStmt::Insert { t, rows, partial } => match pick_table(*t) {
            Some(tb) => {
                let n = tb.def.cols.len();
                if *partial && n >= 2 {
                    // omit the last column: default or NULL
                    let cols: Vec<usize> = (0..n - 1).collect();
                    let rows = rows.iter().map(|r| cols.iter().map(|c| resolve_val(&r[*c % r.len()], tb.def.cols[*c].ty)).collect()).collect();
                    Stmt::Insert { table: tb.def.name.clone(), cols: Some(cols), rows }
                } else {
                    let rows = rows.iter().map(|r| (0..n).map(|c| resolve_val(&r[c % r.len()], tb.def.cols[c].ty)).collect()).collect();
                    Stmt::Insert { table: tb.def.name.clone(), cols: None, rows }
                }
            }
            None => missing("ins"),
        },
        AStmt::Update { t, col, val, add, pred } => match pick_table(*t) {
            Some(tb) => {
                let c = pick_idx(*col, tb.def.cols.len());
                let ty = tb.def.cols[c].ty;
                let set = match (add, ty) {
                    (Some(k), Ty::Int | Ty::BigInt) => SetExpr::Add(*k as i64),
                    _ => SetExpr::Lit(resolve_val(val, ty)),
                };
                Stmt::Update { table: tb.def.name.clone(), col: c, set, pred: resolve_pred(pred, &tb.def) }
            }
            None => missing("upd"),
        },
        AStmt::Delete { t, pred } => match pick_table(*t) {
            Some(tb) => Stmt::Delete { table: tb.def.name.clone(), pred: resolve_pred(pred, &tb.def) },
            None => missing("del"),
        },
        AStmt::Select { t, pred } => match pick_table(*t) {
            Some(tb) => Stmt::Select { table: tb.def.name.clone(), pred: resolve_pred(pred, &tb.def) },
            None => missing("sel"),
        },
        AStmt::CreateIfNotExists { t } => match pick_table(*t) {
            Some(tb) => Stmt::NoOpDdl { sql: format!("CREATE TABLE IF NOT EXISTS {} (zz INT)", tb.def.name) },
            None => missing("cine"),
        },
        AStmt::AlterCol { t, col, action, val } => match pick_table(*t) {
            Some(tb) => {
                // columns outside unique keys
                let free: Vec<usize> = (0..tb.def.cols.len()).filter(|c| !tb.def.uniques.iter().any(|u| u.contains(c))).collect();
                if free.is_empty() {
                    return Stmt::Bad { sql: format!("ALTER TABLE {} ALTER COLUMN nosuch_col SET NOT NULL", tb.def.name), why: "unknown column".into() };
                }
                let c = free[pick_idx(*col, free.len())];
                let ty = tb.def.cols[c].ty;
                let change = match action % 4 {
                    0 => match resolve_val(val, ty) {
                        Val::Null => ColChange::DropDefault,
                        v => ColChange::SetDefault(v),
                    },
                    1 => ColChange::DropDefault,
                    2 => ColChange::SetNotNull,
                    _ => ColChange::DropNotNull,
                };
                Stmt::AlterCol { table: tb.def.name.clone(), col: c, change }
            }
            None => missing("altc"),
        },
        AStmt::AddColumn { t, ty, default } => match pick_table(*t) {
            Some(tb) => {
                let ty = ty_of(*ty);
                let n = (0..).find(|i| !tb.def.cols.iter().any(|c| c.name == format!("c{i}"))).unwrap();
                Stmt::AddColumn { table: tb.def.name.clone(), col: ColDef { name: format!("c{n}"), ty, not_null: false, default: default.as_ref().map(|d| resolve_val(d, ty)).filter(|v| !v.is_null()) } }
            }
            None => missing("alt"),
        },
        AStmt::DropColumn { t, col } => match pick_table(*t) {
            Some(tb) => {
                let candidates: Vec<usize> = (0..tb.def.cols.len()).filter(|c| !tb.def.uniques.iter().any(|u| u.contains(c))).collect();
                if candidates.is_empty() || tb.def.cols.len() <= 1 {
                    Stmt::Bad { sql: format!("ALTER TABLE {} DROP COLUMN nosuch_col", tb.def.name), why: "unknown column".into() }
                } else {
                    Stmt::DropColumn { table: tb.def.name.clone(), col: candidates[pick_idx(*col, candidates.len())] }
                }
            }
            None => missing("alt"),
        },
        AStmt::Bad { kind, t } => {
            let tb = pick_table(*t);
            match (kind, tb) {
                (BadKind::UnknownTable, _) | (_, None) => Stmt::Bad { sql: "INSERT INTO nosuch_table VALUES (1)".into(), why: "unknown table".into() },
                (BadKind::UnknownColumn, Some(tb)) => Stmt::Bad { sql: format!("UPDATE {} SET nosuch_col = 1", tb.def.name), why: "unknown column".into() },
                (BadKind::Syntax, Some(tb)) => Stmt::Bad { sql: format!("SELEC * FROM {}", tb.def.name), why: "syntax".into() },
                (BadKind::CreateExisting, Some(tb)) => Stmt::CreateTable(TableDef { name: tb.def.name.clone(), cols: vec![ColDef { name: "c0".into(), ty: Ty::Int, not_null: false, default: None }], uniques: vec![], pk: None, index_names: vec![] }),
                (BadKind::DuplicateKey, Some(tb)) => {
                    // a two-row insert whose second row repeats an existing key (or, lacking one, its own first row's key)
                    if let Some(u) = tb.def.uniques.first() {
                        let existing = tb.rows.values().find(|r| u.iter().all(|c| !r[*c].is_null())).cloned();
                        let fresh: Vec<Val> = tb.def.cols.iter().enumerate().map(|(i, c)| resolve_val(&AVal::Big(900 + i as u16 + (*t % 50)), c.ty)).collect();
                        let dup = existing.unwrap_or_else(|| fresh.clone());
                        Stmt::Insert { table: tb.def.name.clone(), cols: None, rows: vec![fresh, dup] }
                    } else {
                        Stmt::Bad { sql: "INSERT INTO nosuch_table VALUES (1)".into(), why: "unknown table".into() }
                    }
                }
                (BadKind::NullIntoNotNull, Some(tb)) => {
                    if let Some(nn) = tb.def.cols.iter().position(|c| c.not_null) {
                        let mut fresh: Vec<Val> = tb.def.cols.iter().enumerate().map(|(i, c)| resolve_val(&AVal::Big(700 + i as u16 + (*t % 50)), c.ty)).collect();
                        let first = fresh.clone();
                        fresh[nn] = Val::Null;
                        // make the first row distinct on every column so only the NULL can be at fault
                        let first: Vec<Val> = first.into_iter().zip(&tb.def.cols).enumerate().map(|(i, (_, c))| resolve_val(&AVal::Big(800 + i as u16 + (*t % 50)), c.ty)).collect();
                        Stmt::Insert { table: tb.def.name.clone(), cols: None, rows: vec![first, fresh] }
                    } else {
                        Stmt::Bad { sql: format!("SELECT nosuch_col FROM {}", tb.def.name), why: "unknown column".into() }
                    }
                }
            }
        }
    }
}

// ---------------------------------------------------------------------------------------
// comparison helpers
// ---------------------------------------------------------------------------------------

pub fn rows_equal(engine: &[Vec<Val>], model: &[Vec<Val>]) -> bool {
    multiset(engine) == multiset(model)
}

pub fn show_rows(rows: &[Vec<Val>]) -> String {
    let mut v: Vec<String> = rows.iter().map(|r| format!("({})", r.iter().map(|v| v.sql()).collect::<Vec<_>>().join(","))).collect();
    v.sort();
    let n = v.len();
    if n > 12 {
        v.truncate(12);
        v.push(format!("… {n} rows"));
    }
    format!("[{}]", v.join(" "))
}

/// Reads every table of `view` with a fresh autocommit `SELECT *` and compares with the model.
/// Also checks that dropped / never-created pool names do not resolve.
pub fn compare_state(db: &mut Db, view: &State, at: &str) -> Option<Failure> {
    for name in ["t0", "t1", "t2"] {
        let r = db.exec(&format!("SELECT * FROM {name}"));
        match (view.tables.get(name), r) {
            (Some(t), Ok(Out::Rows { rows, .. })) => {
                // constraint invariants on the engine's own output (independent of the model's rows)
                if rows.iter().all(|r| r.len() == t.def.cols.len()) {
                    for (ci, c) in t.def.cols.iter().enumerate() {
                        if c.not_null && rows.iter().any(|r| r[ci].is_null()) {
                            return Some(Failure::new("invariant.null_in_not_null_column", format!("{at}: table {name} column {} is NOT NULL but holds a NULL: {}", c.name, show_rows(&rows))));
                        }
                    }
                    for u in &t.def.uniques {
                        let mut seen = BTreeSet::new();
                        for r in &rows {
                            if u.iter().any(|c| r[*c].is_null()) {
                                continue;
                            }
                            let k: Vec<String> = u.iter().map(|c| r[*c].key()).collect();
                            if !seen.insert(k) {
                                return Some(Failure::new("invariant.duplicate_key_committed", format!("{at}: table {name} holds two live rows equal on unique columns {:?}: {}", u.iter().map(|c| t.def.cols[*c].name.clone()).collect::<Vec<_>>(), show_rows(&rows))));
                            }
                        }
                    }
                }
                let want: Vec<Vec<Val>> = t.rows.values().cloned().collect();
                if !rows_equal(&rows, &want) {
                    let clause = diff_clause(&rows, &want);
                    return Some(Failure::new(&clause, format!("{at}: table {name}: engine {} model {}", show_rows(&rows), show_rows(&want))));
                }
            }
            (Some(_), Ok(o)) => return Some(Failure::new("select_wrong_result_kind", format!("{at}: SELECT * FROM {name} returned {o:?}"))),
            (Some(_), Err(dbx::Err::Panic(p))) => return Some(Failure::new("panic", format!("{at}: SELECT * FROM {name}: {p}"))),
            (Some(_), Err(e)) => return Some(Failure::new("table_unreadable", format!("{at}: SELECT * FROM {name} failed: {}", e.text()))),
            (None, Ok(o)) => return Some(Failure::new("phantom_table", format!("{at}: table {name} should not exist but SELECT returned {o:?}"))),
            (None, Err(dbx::Err::Panic(p))) => return Some(Failure::new("panic", format!("{at}: SELECT * FROM missing {name}: {p}"))),
            (None, Err(_)) => {}
        }
    }
    None
}

fn diff_clause(engine: &[Vec<Val>], model: &[Vec<Val>]) -> String {
    let e = multiset(engine);
    let m = multiset(model);
    let extra = e.iter().any(|(k, n)| m.get(k).copied().unwrap_or(0) < *n);
    let missing = m.iter().any(|(k, n)| e.get(k).copied().unwrap_or(0) < *n);
    match (extra, missing) {
        (true, true) => "rows_differ",
        (true, false) => "extra_rows",
        (false, true) => "missing_rows",
        _ => "rows_differ",
    }
    .to_string()
}

// ---------------------------------------------------------------------------------------
// interpreter
// ---------------------------------------------------------------------------------------

/// What happened at one step, for oracles layered on top (crash checks, labels).
#[derive(Clone, Debug)]
pub struct StepLog {
    pub sql: String,
    pub ok: bool,
    pub tags: Vec<String>,
}

pub struct Interp {
    pub db: Db,
    pub model: Model,
    pub txns: BTreeMap<u8, Txn>,
    pub tags: BTreeSet<String>,
    pub transcript: Vec<String>,
    pub labels: BTreeSet<String>,
    /// tags excluded by open findings: steps carrying them are skipped and counted
    pub excluded: BTreeMap<String, String>,
    pub skipped: Vec<String>,
    /// compare the full state after every transaction end / autocommit statement
    pub check_state_every_step: bool,
    /// compare per-statement outputs (counts, rows, error-vs-success)
    pub check_outputs: bool,
    pub reopen_cfgs: Vec<Cfg>,
    /// set when a transaction wrote and then ended without commit, and a read followed
    pub saw_noncommit_write_then_read: bool,
    pub pending_noncommit_write: bool,
    /// sequential mode: autocommit statements, batches and further BEGINs are skipped while a session is open
    pub sequential: bool,
    /// kind of the step that ran last: "commit_path" | "noncommit_end" | "failed_stmt" | "admin"
    pub last_step_kind: &'static str,
    verbose: bool,
    /// unique keys written by a transaction/statement that did not commit: (table, unique idx, key)
    pub poisoned_keys: BTreeSet<(String, usize, String)>,
    /// committed rows whose DELETE was rolled back: (table, model row id)
    pub poisoned_rows: BTreeSet<(String, u64)>,
    /// rows that carry more than one version (were updated at least once): (table, model row id)
    pub updated_rows: BTreeSet<(String, u64)>,
    checks_done: usize,
    /// run the page auditor at every quiescent full check
    pub audit_pages: bool,
    pub audits_done: usize,
    pub saw_free_pages: bool,
    pub last_page_counts: Option<(u64, u64)>,
    /// at least one VACUUM ran while the history already contained deletes / updates / non-committed writes
    pub vacuum_had_work: bool,
    /// per open session: (reads done, a foreign transaction ended after its last read)
    pub sess_reads: BTreeMap<u8, (u32, bool)>,
    /// a reader observed (correctly or not) a state in which a foreign writer ended between two of its reads
    pub saw_foreign_end_between_reads: bool,
    /// two open transactions wrote the same row
    pub saw_concurrent_same_row_write: bool,
    /// do not assert first-committer-wins (open finding): both may commit
    pub tolerate_ww_conflict: bool,
    /// run VACUUM even while sessions are open (it aborts them, by contract)
    pub vacuum_aborts_sessions: bool,
    /// crash histories: checkpoint even while a session has uncommitted writes (the caller then skips the crash
    /// points that the open finding about such checkpoints makes incomparable)
    pub allow_flush_with_open_writer: bool,
    /// transaction ids consumed by Burn steps
    pub burned: u32,
    /// the bystander transaction (engine session 250) is open
    pub bystander_open: bool,
    /// per open session: tables whose schema / rows were changed by transactions that committed while the session
    /// was open (its snapshot predates them)
    pub committed_beside: BTreeMap<u8, (BTreeSet<String>, BTreeSet<String>)>,
    /// sessions in which a statement failed after writing rows: not asserted any more, rolled back at their end
    pub doomed: BTreeSet<u8>,
}

pub fn err_is_unknown_object(text: &str) -> bool {
    let t = text.to_lowercase();
    t.contains("not found") || t.contains("does not exist") || t.contains("unknown") || t.contains("no such") || t.contains("notfound")
}

impl Interp {
    pub fn new(cfg: Cfg, excluded: BTreeMap<String, String>) -> Result<Interp, Failure> {
        let db = Db::create(cfg).map_err(|e| Failure::new("create_failed", e))?;
        Ok(Interp {
            db,
            model: Model::default(),
            txns: BTreeMap::new(),
            tags: BTreeSet::new(),
            transcript: vec![],
            labels: BTreeSet::new(),
            excluded,
            skipped: vec![],
            check_state_every_step: true,
            check_outputs: true,
            reopen_cfgs: vec![cfg],
            saw_noncommit_write_then_read: false,
            pending_noncommit_write: false,
            sequential: false,
            last_step_kind: "commit_path",
            verbose: std::env::var("VERIF_TRACE").is_ok(),
            poisoned_keys: BTreeSet::new(),
            poisoned_rows: BTreeSet::new(),
            updated_rows: BTreeSet::new(),
            checks_done: 0,
            audit_pages: false,
            audits_done: 0,
            saw_free_pages: false,
            last_page_counts: None,
            vacuum_had_work: false,
            sess_reads: BTreeMap::new(),
            saw_foreign_end_between_reads: false,
            saw_concurrent_same_row_write: false,
            tolerate_ww_conflict: false,
            vacuum_aborts_sessions: false,
            allow_flush_with_open_writer: false,
            burned: 0,
            bystander_open: false,
            committed_beside: BTreeMap::new(),
            doomed: BTreeSet::new(),
        })
    }

    fn trace(&mut self, line: String) {
        if self.verbose {
            eprintln!("{line}");
        }
        self.transcript.push(line);
    }

    fn fail(&self, clause: &str, detail: String) -> Failure {
        let tail: Vec<String> = self.transcript.iter().rev().take(14).rev().cloned().collect();
        Failure::new(clause, format!("{detail}\n  transcript (last {}):\n    {}", tail.len(), tail.join("\n    "))).with_tags(self.tags.iter().cloned())
    }

    pub fn key_of(def: &TableDef, ui: usize, row: &[Val]) -> Option<String> {
        let u = def.uniques.get(ui)?;
        if u.iter().any(|c| row.get(*c).map(|v| v.is_null()).unwrap_or(true)) {
            return None;
        }
        Some(u.iter().map(|c| row[*c].key()).collect::<Vec<_>>().join("\u{1}"))
    }

    /// Records what a transaction that did not commit leaves behind (see the findings these tags belong to).
    fn poison_from_effects(&mut self, effects: &[Effect], view: &State) {
        for e in effects {
            match e {
                Effect::Insert { table, row, .. } | Effect::Update { table, row, .. } => {
                    if let Some(t) = view.tables.get(table).or_else(|| self.model.committed.tables.get(table)) {
                        for ui in 0..t.def.uniques.len() {
                            if let Some(k) = Self::key_of(&t.def, ui, row) {
                                self.poisoned_keys.insert((table.clone(), ui, k));
                            }
                        }
                    }
                }
                Effect::Delete { table, id } => {
                    if self.model.committed.tables.get(table).map(|t| t.rows.contains_key(id)).unwrap_or(false) {
                        self.poisoned_rows.insert((table.clone(), *id));
                    }
                }
                _ => {}
            }
        }
    }

    /// A statement predicted to fail may have written some of its rows before failing.
    fn poison_from_failed_stmt(&mut self, s: &Stmt, view: &State) {
        if let Stmt::Insert { table, cols, rows } = s {
            if let Some(t) = view.tables.get(table) {
                for r in rows {
                    let full: Vec<Val> = match cols {
                        None => r.clone(),
                        Some(cs) => {
                            let mut f: Vec<Val> = t.def.cols.iter().map(|c| c.default.clone().unwrap_or(Val::Null)).collect();
                            for (c, v) in cs.iter().zip(r) {
                                if *c < f.len() {
                                    f[*c] = v.clone();
                                }
                            }
                            f
                        }
                    };
                    if full.len() != t.def.cols.len() {
                        continue;
                    }
                    for ui in 0..t.def.uniques.len() {
                        if let Some(k) = Self::key_of(&t.def, ui, &full) {
                            self.poisoned_keys.insert((table.clone(), ui, k));
                        }
                    }
                }
            }
        }
    }

    /// Tags that depend on the history (poisoned keys / rows).
    fn history_tags(&self, s: &Stmt, view: &State) -> Vec<String> {
        let mut t = vec![];
        match s {
            Stmt::Insert { table, cols: None, rows } => {
                if let Some(tb) = view.tables.get(table) {
                    for r in rows {
                        for ui in 0..tb.def.uniques.len() {
                            if let Some(k) = Self::key_of(&tb.def, ui, r) {
                                if self.poisoned_keys.contains(&(table.clone(), ui, k)) {
                                    t.push("unique.key_reused_after_noncommit".to_string());
                                }
                            }
                        }
                    }
                }
            }
            Stmt::Insert { table, cols: Some(cs), rows } => {
                if let Some(tb) = view.tables.get(table) {
                    for r in rows {
                        let mut f: Vec<Val> = tb.def.cols.iter().map(|c| c.default.clone().unwrap_or(Val::Null)).collect();
                        for (c, v) in cs.iter().zip(r) {
                            if *c < f.len() {
                                f[*c] = v.clone();
                            }
                        }
                        for ui in 0..tb.def.uniques.len() {
                            if let Some(k) = Self::key_of(&tb.def, ui, &f) {
                                if self.poisoned_keys.contains(&(table.clone(), ui, k)) {
                                    t.push("unique.key_reused_after_noncommit".to_string());
                                }
                            }
                        }
                    }
                }
            }
            Stmt::Delete { table, pred } | Stmt::Update { table, pred, .. } => {
                if let Some(tb) = view.tables.get(table) {
                    if tb.rows.iter().any(|(id, r)| self.poisoned_rows.contains(&(table.clone(), *id)) && pred.eval(r) == Some(true)) {
                        t.push("dml.on_row_with_rolled_back_delete".to_string());
                    }
                }
            }
            Stmt::CreateUniqueIndex { table, .. } => {
                // an index built over a table that holds rows of aborted transactions
                if self.poisoned_keys.iter().any(|(tb, _, _)| tb == table) {
                    t.push("unique.key_reused_after_noncommit".to_string());
                }
                // ... or rows whose DELETE did not commit (or has not yet): after a crash recovery undoes that
                // DELETE by inserting the row again, now against the new index (same open finding as a
                // non-committed DELETE on a table that already has one: F-C08-undo-delete-hits-unique)
                let rolled_back = self.poisoned_rows.iter().any(|(tb, _)| tb == table);
                let open = self.txns.values().any(|x| x.effects.iter().any(|e| matches!(e, Effect::Delete { table: tb, .. } if tb == table)));
                if rolled_back || open {
                    t.push("delete.in_txn_on_unique_table".to_string());
                }
            }
            Stmt::DropTable { table } => {
                // names are reused: forget poison of a dropped table
                let _ = table;
            }
            _ => {}
        }
        t.sort();
        t.dedup();
        t
    }

    fn skip_if_excluded(&mut self, tags: &[String]) -> bool {
        for t in tags {
            if self.excluded.contains_key(t) {
                if self.verbose {
                    eprintln!("  (step skipped: {t})");
                }
                self.skipped.push(t.clone());
                return true;
            }
        }
        false
    }

    /// Compares a statement's engine outcome with the model's.
    fn compare_out(&self, sql: &str, eng: &Result<Out, dbx::Err>, m: &MOut, in_txn: bool) -> Option<Failure> {
        let ctx = if in_txn { "in transaction" } else { "autocommit" };
        match (eng, m) {
            (Err(dbx::Err::Panic(p)), _) => Some(self.fail("panic", format!("{ctx} `{sql}`: {p}"))),
            (Ok(Out::Rows { rows, .. }), MOut::Rows(want)) => {
                if rows_equal(rows, want) {
                    None
                } else {
                    Some(self.fail(&format!("select_{}", diff_clause(rows, want)), format!("{ctx} `{sql}`: engine {} model {}", show_rows(rows), show_rows(want))))
                }
            }
            (Ok(Out::Affected(n)), MOut::Affected(w)) => {
                if n == w {
                    None
                } else {
                    Some(self.fail("wrong_affected_count", format!("{ctx} `{sql}`: engine reports {n}, model {w}")))
                }
            }
            (Ok(Out::Ddl(_)), MOut::Ddl) => None,
            (Ok(o), MOut::Err(c, why)) => Some(self.fail("statement_should_fail", format!("{ctx} `{sql}`: model expects {c:?} ({why}), engine returned {}", crate::engine::truncate(&format!("{o:?}"), 200)))),
            (Err(e), MOut::Err(..)) => {
                let _ = e;
                None
            }
            (Err(e), _) => Some(self.fail("spurious_error", format!("{ctx} `{sql}`: model expects success, engine: {}", e.text()))),
            (Ok(o), want) => Some(self.fail("wrong_result_kind", format!("{ctx} `{sql}`: engine {o:?}, model {want:?}"))),
        }
    }

    /// Tags of a transaction that ends without committing, by what it did.
    fn noncommit_tags(&self, effects: &[Effect]) -> Vec<String> {
        let mut tags: Vec<String> = vec![];
        for e in effects {
            tags.push(
                match e {
                    Effect::Insert { .. } => "txn.noncommit_after_insert",
                    Effect::Update { .. } => "txn.noncommit_after_update",
                    Effect::Delete { .. } => "txn.noncommit_after_delete",
                    Effect::Create(_) => "txn.noncommit_after_create",
                    Effect::Drop(_) => "txn.noncommit_after_drop",
                    Effect::AddUnique { .. } => "txn.noncommit_after_create_index",
                    Effect::AddColumn { .. } | Effect::DropColumn { .. } | Effect::AlterCol { .. } => "txn.noncommit_after_alter",
                }
                .to_string(),
            );
        }
        // deleted a committed row and wrote its unique key again (the index entry of the old row is taken over)
        let c = &self.model.committed;
        let mut deleted: Vec<(String, usize, String)> = vec![];
        for e in effects {
            match e {
                Effect::Delete { table, id } => {
                    if let Some(tb) = c.tables.get(table) {
                        if let Some(r) = tb.rows.get(id) {
                            for ui in 0..tb.def.uniques.len() {
                                if let Some(k) = Self::key_of(&tb.def, ui, r) {
                                    deleted.push((table.clone(), ui, k));
                                }
                            }
                        }
                    }
                }
                Effect::Insert { table, row, .. } | Effect::Update { table, row, .. } => {
                    if let Some(tb) = c.tables.get(table) {
                        for ui in 0..tb.def.uniques.len() {
                            if let Some(k) = Self::key_of(&tb.def, ui, row) {
                                if deleted.contains(&(table.clone(), ui, k)) {
                                    tags.push("txn.noncommit_after_reinsert_of_deleted_key".into());
                                }
                            }
                        }
                    }
                }
                _ => {}
            }
        }
        tags.sort();
        tags.dedup();
        tags
    }

    /// Rows matched by a writing statement that some other transaction (open, or committed after
    /// `begin_epoch`) has updated or deleted: a write-write conflict under snapshot isolation.
    fn ww_conflict_rows(&self, stmt: &Stmt, view: &State, me: Option<u8>, begin_epoch: u64) -> bool {
        let (table, pred) = match stmt {
            Stmt::Delete { table, pred } | Stmt::Update { table, pred, .. } => (table, pred),
            _ => return false,
        };
        let Some(tb) = view.tables.get(table) else { return false };
        let matched: Vec<u64> = tb.rows.iter().filter(|(_, r)| pred.eval(r) == Some(true)).map(|(id, _)| *id).collect();
        if matched.is_empty() {
            return false;
        }
        let hit = |rows: &[(String, u64)]| rows.iter().any(|(t, id)| t == table && matched.contains(id));
        for (s, o) in &self.txns {
            if Some(*s) != me && hit(&Model::write_set(o)) {
                return true;
            }
        }
        self.model.commit_log.iter().any(|(ep, rows)| *ep > begin_epoch && hit(rows))
    }

    fn note_foreign_end(&mut self, except: Option<u8>) {
        for (s, v) in self.sess_reads.iter_mut() {
            if Some(*s) != except && v.0 >= 1 {
                v.1 = true;
            }
        }
    }

    fn after_read(&mut self) {
        if self.pending_noncommit_write {
            self.saw_noncommit_write_then_read = true;
        }
    }

    pub fn check_now(&mut self, at: &str) -> Option<Failure> {
        self.full_check(at)
    }

    fn full_check(&mut self, at: &str) -> Option<Failure> {
        // Vary the number of transaction ids consumed between steps (the fixed three reads below would
        // otherwise pin every session's id to one residue class): a few extra reads, a pure function of the history length.
        self.checks_done += 1;
        for _ in 0..(self.checks_done * 7 / 3) % 4 {
            let _ = self.db.exec("SELECT * FROM t0");
        }
        let view = self.model.committed.clone();
        let r = compare_state(&mut self.db, &view, at);
        self.after_read();
        if r.is_none() && self.audit_pages && self.txns.is_empty() {
            if let Some(raw) = self.db.raw() {
                let before = crate::panics::count();
                let audited = std::panic::catch_unwind(std::panic::AssertUnwindSafe(|| crate::audit::audit_database(raw)));
                let audited = match audited {
                    Ok(a) => a,
                    Err(_) => {
                        let recs = crate::panics::take();
                        let sig = recs.get(before.min(recs.len().saturating_sub(1))).map(|r| r.signature()).unwrap_or_default();
                        Err(("walk_panic".to_string(), sig))
                    }
                };
                match audited {
                    Ok((free, total)) => {
                        self.audits_done += 1;
                        if free > 0 {
                            self.saw_free_pages = true;
                        }
                        self.last_page_counts = Some((free, total));
                    }
                    Err((c, d)) => return Some(self.fail(&format!("audit.{c}"), format!("{at}: {d}"))),
                }
            }
        }
        r.map(|f| {
            let d = f.detail.clone();
            self.fail(&f.clause, d)
        })
    }

    pub fn step(&mut self, i: usize, st: &Step) -> Option<Failure> {
        if self.sequential && !self.txns.is_empty() {
            match st {
                Step::Auto(_) | Step::Batch(_) => return None,
                Step::Begin(_) => return None,
                Step::Exec(s, _) | Step::Commit(s) | Step::Rollback(s) | Step::DropSession(s) if !self.txns.contains_key(s) => return None,
                _ => {}
            }
        }
        if self.bystander_open && matches!(st, Step::Vacuum | Step::Reopen(_)) {
            // VACUUM aborts open transactions by contract, a close ends them: end the bystander first
            self.db.drop_session(250);
            self.bystander_open = false;
            self.trace(format!("[{i}] bystander: drop session"));
        }
        self.last_step_kind = match st {
            Step::Rollback(_) | Step::DropSession(_) => "noncommit_end",
            Step::Flush | Step::Vacuum | Step::Reopen(_) | Step::Burn(_) | Step::Bystander(_) => "admin",
            _ => "commit_path",
        };
        match st {
            Step::Auto(a) => {
                let s = resolve(a, &self.model.committed);
                if update_is_order_sensitive(&self.model.committed, &s) {
                    return None;
                }
                let mut tags = stmt_tags(&s, &self.model.committed);
                tags.extend(self.history_tags(&s, &self.model.committed));
                if !self.txns.is_empty() {
                    if tags.iter().any(|t| t.starts_with("ddl.")) {
                        tags.push("ddl.concurrent".into());
                    }
                    // an open transaction changed the schema of the table this statement works on (or this is DDL)
                    let mine = stmt_table(&s);
                    let ddl_table = |e: &Effect| -> Option<String> {
                        match e {
                            Effect::Create(d) => Some(d.name.clone()),
                            Effect::Drop(t) => Some(t.clone()),
                            Effect::AddUnique { table, .. } | Effect::AddColumn { table, .. } | Effect::DropColumn { table, .. } | Effect::AlterCol { table, .. } => Some(table.clone()),
                            _ => None,
                        }
                    };
                    let is_ddl = tags.iter().any(|t| t.starts_with("ddl."));
                    if self.txns.values().any(|t| t.effects.iter().filter_map(ddl_table).any(|tb| is_ddl || mine.is_none() || mine.as_deref() == Some(tb.as_str()))) {
                        tags.push("stmt.while_uncommitted_ddl_open".into());
                    }
                    if let Stmt::Insert { table, .. } = &s {
                        if self.model.committed.tables.get(table).map(|t| !t.def.uniques.is_empty()).unwrap_or(false) {
                            tags.push("insert.unique_concurrent".into());
                        }
                    }
                    if let Stmt::DropTable { table } = &s {
                        let touched = |e: &Effect| match e {
                            Effect::Insert { table: t, .. } | Effect::Update { table: t, .. } | Effect::Delete { table: t, .. } | Effect::AddUnique { table: t, .. } => t == table,
                            _ => false,
                        };
                        if self.txns.values().any(|t| t.effects.iter().any(touched)) {
                            tags.push("ddl.drop_table_with_open_writer".into());
                        }
                    }
                    if matches!(s, Stmt::Update { .. }) {
                        tags.push("update.concurrent".into());
                    }
                    if self.ww_conflict_rows(&s, &self.model.committed, None, self.model.epoch) {
                        tags.push("dml.ww_conflict".into());
                    }
                    if !matches!(s, Stmt::Select { .. } | Stmt::Bad { .. }) {
                        tags.push("autocommit_write_while_session_open".into());
                    }
                }
                if self.skip_if_excluded(&tags) {
                    return None;
                }
                let sql = stmt_sql(&s, &self.model.committed);
                self.trace(format!("[{i}] auto: {sql}"));
                self.tags.extend(tags);
                let eng = self.db.exec(&sql);
                let before = self.model.committed.clone();
                let m = self.model.autocommit(&s);
                if let (Stmt::Update { table, pred, .. }, MOut::Affected(_)) = (&s, &m) {
                    if let Some(tb) = before.tables.get(table) {
                        for (id, r) in &tb.rows {
                            if pred.eval(r) == Some(true) {
                                self.updated_rows.insert((table.clone(), *id));
                            }
                        }
                    }
                }
                if matches!(m, MOut::Err(..)) {
                    self.tags.insert("failed_stmt".into());
                    self.last_step_kind = "failed_stmt";
                    if !matches!(s, Stmt::Bad { .. } | Stmt::Select { .. } | Stmt::DropTable { .. }) {
                        self.pending_noncommit_write = true;
                    }
                    self.poison_from_failed_stmt(&s, &before);
                    if before != self.model.committed {
                        unreachable!("model changed state on error");
                    }
                }
                if matches!(s, Stmt::Select { .. }) {
                    self.after_read();
                }
                if !matches!(s, Stmt::Select { .. }) && !matches!(m, MOut::Err(..)) {
                    self.note_foreign_end(None);
                }
                if let (Stmt::DropTable { table }, MOut::Ddl) = (&s, &m) {
                    self.poisoned_keys.retain(|(t, _, _)| t != table);
                    self.poisoned_rows.retain(|(t, _)| t != table);
                }
                if self.check_outputs {
                    if let Some(f) = self.compare_out(&sql, &eng, &m, false) {
                        return Some(f);
                    }
                } else if let Err(dbx::Err::Panic(p)) = &eng {
                    return Some(self.fail("panic", format!("`{sql}`: {p}")));
                }
                if self.check_state_every_step && !matches!(s, Stmt::Select { .. }) {
                    let at = format!("after autocommit step {i}");
                    let clause_prefix = if matches!(m, MOut::Err(..)) { Some("failed_statement_partial_effect") } else { None };
                    if let Some(f) = self.full_check(&at) {
                        return Some(match clause_prefix {
                            Some(c) if !f.clause.starts_with("audit.") => Failure { clause: c.to_string(), ..f },
                            _ => f,
                        });
                    }
                }
                None
            }
            Step::Begin(s) => {
                if self.txns.contains_key(s) {
                    return None;
                }
                self.trace(format!("[{i}] s{s}: BEGIN"));
                if let Err(e) = self.db.begin(*s) {
                    return Some(self.fail("begin_failed", e.text()));
                }
                self.txns.insert(*s, self.model.begin());
                self.committed_beside.remove(s);
                self.sess_reads.insert(*s, (0, false));
                if self.txns.len() > 1 {
                    self.tags.insert("txn.concurrent".into());
                }
                None
            }
            Step::Exec(s, a) => {
                let Some(txn) = self.txns.get(s) else { return None };
                let stmt = resolve(a, &txn.view);
                if update_is_order_sensitive(&txn.view, &stmt) {
                    return None;
                }
                let mut tags = stmt_tags(&stmt, &txn.view);
                tags.push("txn.session".into());
                tags.extend(self.history_tags(&stmt, &txn.view));
                if let Stmt::Insert { table, .. } = &stmt {
                    if self.txns.len() > 1 && txn.view.tables.get(table).map(|t| !t.def.uniques.is_empty()).unwrap_or(false) {
                        tags.push("insert.unique_concurrent".into());
                    }
                }
                // re-insert of a unique key whose committed row this transaction deleted before: if the transaction
                // then does not commit, the index entry is lost (finding F-C06-index-entry-lost-after-rolled-back-reinsert)
                if let Stmt::Insert { table, cols: None, rows } = &stmt {
                    if let (Some(tb), Some(ct)) = (txn.view.tables.get(table), self.model.committed.tables.get(table)) {
                        let deleted_keys: Vec<(usize, String)> = txn
                            .effects
                            .iter()
                            .filter_map(|e| match e {
                                Effect::Delete { table: t2, id } if t2 == table => ct.rows.get(id),
                                _ => None,
                            })
                            .flat_map(|r| (0..tb.def.uniques.len()).filter_map(|ui| Self::key_of(&tb.def, ui, r).map(|k| (ui, k))).collect::<Vec<_>>())
                            .collect();
                        if rows.iter().any(|r| (0..tb.def.uniques.len()).any(|ui| Self::key_of(&tb.def, ui, r).map(|k| deleted_keys.contains(&(ui, k))).unwrap_or(false))) {
                            tags.push("unique.reinsert_of_key_deleted_in_same_txn".into());
                        }
                    }
                }
                if let Stmt::Delete { table, .. } = &stmt {
                    tags.push("delete.in_txn".into());
                    if txn.view.tables.get(table).map(|t| !t.def.uniques.is_empty()).unwrap_or(false) {
                        tags.push("delete.in_txn_on_unique_table".into());
                    }
                }
                if matches!(stmt, Stmt::Update { .. }) {
                    tags.push("update.in_session".into());
                    if self.txns.len() > 1 {
                        tags.push("update.concurrent".into());
                    }
                }
                if self.ww_conflict_rows(&stmt, &txn.view, Some(*s), txn.begin_epoch) {
                    tags.push("dml.ww_conflict".into());
                }
                if let Stmt::Delete { table, pred } = &stmt {
                    if let Some(tb) = txn.view.tables.get(table) {
                        if tb.rows.iter().any(|(id, r)| self.updated_rows.contains(&(table.clone(), *id)) && pred.eval(r) == Some(true)) {
                            tags.push("txn.delete_of_updated_row_in_session".into());
                        }
                    }
                }
                {
                    // another open transaction changed the schema of the table this statement works on
                    let mine = stmt_table(&stmt);
                    let is_ddl = tags.iter().any(|t| t.starts_with("ddl."));
                    let hit = self.txns.iter().filter(|(k, _)| *k != s).any(|(_, t)| {
                        t.effects.iter().any(|e| match e {
                            Effect::Create(d) => is_ddl || mine.is_none() || mine.as_deref() == Some(d.name.as_str()),
                            Effect::Drop(tb) => is_ddl || mine.is_none() || mine.as_deref() == Some(tb.as_str()),
                            Effect::AddUnique { table, .. } | Effect::AddColumn { table, .. } | Effect::DropColumn { table, .. } | Effect::AlterCol { table, .. } => is_ddl || mine.is_none() || mine.as_deref() == Some(table.as_str()),
                            _ => false,
                        })
                    });
                    if hit {
                        tags.push("stmt.while_uncommitted_ddl_open".into());
                    }
                }
                if let Some((ddl, wr)) = self.committed_beside.get(s) {
                    // a transaction that was open when this one began has committed since
                    let mine = stmt_table(&stmt);
                    if mine.as_ref().map(|t| ddl.contains(t)).unwrap_or(!ddl.is_empty()) {
                        // (its schema change is seen by this older snapshot too: same finding as uncommitted DDL)
                        tags.push("stmt.while_uncommitted_ddl_open".into());
                    }
                    if let Some(t) = &mine {
                        if wr.contains(t) && txn.view.tables.get(t).map(|tb| !tb.def.uniques.is_empty()).unwrap_or(false) {
                            if matches!(stmt, Stmt::Insert { .. }) {
                                tags.push("insert.unique_concurrent".into());
                            }
                            if matches!(stmt, Stmt::Update { .. }) {
                                tags.push("update.concurrent".into());
                            }
                        }
                    }
                }
                if (self.txns.len() > 1 || self.model.epoch > txn.begin_epoch) && tags.iter().any(|t| t.starts_with("ddl.")) {
                    // DDL in one session while another is open (the other session's snapshot must not change), or
                    // on a snapshot that is no longer the latest committed state
                    tags.push("ddl.concurrent".into());
                }
                for t in tags.clone() {
                    if t.starts_with("ddl.") || t == "stmt.fails_midway" {
                        tags.push(format!("{t}_in_txn"));
                    }
                }
                let sql = stmt_sql(&stmt, &txn.view);
                if self.doomed.contains(s) {
                    // the session ran a statement that failed half-way (see below): what it sees from here on is
                    // not asserted, it only has to vanish when the session ends
                    return None;
                }
                {
                    // A statement that fails after it wrote some rows inside a session keeps them visible to the
                    // session (open finding, tag stmt.fails_midway_in_txn). Instead of skipping such statements the
                    // session is doomed: the statement runs, nothing more is asserted inside the session, a COMMIT
                    // is turned into a ROLLBACK, and after that the partial rows must be gone.
                    let doom_tag = "stmt.fails_midway_in_txn".to_string();
                    let others: Vec<String> = tags.iter().filter(|t| **t != doom_tag).cloned().collect();
                    // the session must be allowed to roll back later: none of the non-commit kinds it would carry
                    // (its own effects so far plus the partial insert) may be excluded by another finding
                    let mut end_tags: Vec<String> = vec!["txn.rollback".into(), "txn.drop_session".into(), "txn.noncommit_after_insert".into()];
                    end_tags.extend(self.noncommit_tags(&txn.effects));
                    if tags.iter().any(|t| t == "unique.reinsert_of_key_deleted_in_same_txn") {
                        // the failing statement itself writes such a key again before it fails
                        end_tags.push("txn.noncommit_after_reinsert_of_deleted_key".into());
                    }
                    let may_roll_back = !end_tags.iter().any(|t| self.excluded.contains_key(t)) && matches!(stmt, Stmt::Insert { .. });
                    if may_roll_back && tags.contains(&doom_tag) && self.excluded.contains_key(&doom_tag) && !others.iter().any(|t| self.excluded.contains_key(t)) {
                        self.trace(format!("[{i}] s{s}: {sql}   -- fails half-way; session {s} will be rolled back"));
                        self.tags.extend(others);
                        self.tags.insert("txn.doomed_after_partial_failure".into());
                        let eng = self.db.sexec(*s, &sql);
                        if let Err(dbx::Err::Panic(p)) = &eng {
                            return Some(self.fail("panic", format!("`{sql}`: {p}")));
                        }
                        if eng.is_ok() {
                            return Some(self.fail("statement_should_fail", format!("in transaction `{sql}`: the model expects a constraint error, engine returned {:?}", eng)));
                        }
                        let view_before = self.txns.get(s).map(|t| t.view.clone()).unwrap_or_default();
                        self.poison_from_failed_stmt(&stmt, &view_before);
                        self.pending_noncommit_write = true;
                        self.doomed.insert(*s);
                        return None;
                    }
                }
                if self.skip_if_excluded(&tags) {
                    return None;
                }
                self.trace(format!("[{i}] s{s}: {sql}"));
                self.tags.extend(tags);
                let mut txn = self.txns.remove(s).unwrap();
                let view_before = txn.view.clone();
                if self.check_outputs {
                    // a statement the model predicts to fail: make sure the session's view was right before it,
                    // so that a wrong view afterwards can be blamed on the failed statement
                    let will_fail = {
                        let mut v = txn.view.clone();
                        let mut k = u64::MAX / 2;
                        matches!(exec_model(&mut v, &mut k, &stmt).0, MOut::Err(..))
                    };
                    if will_fail {
                        self.txns.insert(*s, txn);
                        if let Some(f) = self.session_view_check(*s, &format!("before the failing statement at step {i}")) {
                            return Some(Failure { clause: format!("pre_divergence.{}", f.clause), ..f });
                        }
                        txn = self.txns.remove(s).unwrap();
                    }
                }
                // (the statement runs after the view check above, which must see the state before it)
                let eng = self.db.sexec(*s, &sql);
                let n_eff = txn.effects.len();
                let m = self.model.exec(&mut txn, &stmt);
                for e in &txn.effects[n_eff..] {
                    if let Effect::Update { table, id, .. } = e {
                        self.updated_rows.insert((table.clone(), *id));
                    }
                }
                if matches!(stmt, Stmt::Select { .. }) {
                    let v = self.sess_reads.entry(*s).or_insert((0, false));
                    if v.0 >= 1 && v.1 {
                        self.saw_foreign_end_between_reads = true;
                    }
                    v.0 += 1;
                    v.1 = false;
                }
                {
                    let mine = Model::write_set(&txn);
                    if !mine.is_empty() && self.txns.values().any(|o| Model::write_set(o).iter().any(|r| mine.contains(r))) {
                        self.saw_concurrent_same_row_write = true;
                        self.tags.insert("txn.same_row_write".into());
                    }
                }
                let failed = matches!(m, MOut::Err(..));
                if failed {
                    self.tags.insert("failed_stmt".into());
                    self.tags.insert("txn.failed_stmt_in_session".into());
                    self.last_step_kind = "failed_stmt";
                    if !matches!(stmt, Stmt::Bad { .. } | Stmt::Select { .. } | Stmt::DropTable { .. }) {
                        self.pending_noncommit_write = true;
                    }
                    self.poison_from_failed_stmt(&stmt, &view_before);
                }
                self.txns.insert(*s, txn);
                if self.check_outputs {
                    if let Some(f) = self.compare_out(&sql, &eng, &m, true) {
                        return Some(f);
                    }
                } else if let Err(dbx::Err::Panic(p)) = &eng {
                    return Some(self.fail("panic", format!("`{sql}`: {p}")));
                }
                if failed && self.check_outputs {
                    // statement atomicity inside the session: the session still works and sees the state before
                    let _ = view_before;
                    if let Some(f) = self.session_view_check(*s, &format!("after failed statement at step {i}")) {
                        return Some(Failure { clause: "failed_statement_partial_effect".into(), ..f });
                    }
                }
                None
            }
            Step::Commit(s) if self.doomed.contains(s) => {
                return self.step(i, &Step::Rollback(*s));
            }
            Step::Commit(s) => {
                let Some(txn) = self.txns.remove(s) else { return None };
                self.sess_reads.remove(s);
                self.trace(format!("[{i}] s{s}: COMMIT"));
                self.tags.insert("txn.commit".into());
                let r = self.db.commit(*s);
                let conflict = self.model.ww_conflict(&txn);
                match r {
                    Ok(()) => {
                        if conflict && self.tolerate_ww_conflict {
                            self.skipped.push("txn.ww_conflict_check".into());
                        } else if conflict {
                            self.tags.insert("txn.ww_conflict".into());
                            return Some(self.fail("lost_update_both_commit", format!("step {i}: session {s} committed although a transaction that committed after it began wrote the same row(s) {:?}", Model::write_set(&txn))));
                        }
                        if txn.wrote {
                            self.note_foreign_end(Some(*s));
                        }
                        // the sessions still open began before this commit: remember what it changed beside them
                        let mut ddl: BTreeSet<String> = BTreeSet::new();
                        let mut wr: BTreeSet<String> = BTreeSet::new();
                        for e in &txn.effects {
                            match e {
                                Effect::Create(d) => { ddl.insert(d.name.clone()); }
                                Effect::Drop(t) => { ddl.insert(t.clone()); }
                                Effect::AddUnique { table, .. } | Effect::AddColumn { table, .. } | Effect::DropColumn { table, .. } | Effect::AlterCol { table, .. } => { ddl.insert(table.clone()); }
                                Effect::Insert { table, .. } | Effect::Update { table, .. } | Effect::Delete { table, .. } => { wr.insert(table.clone()); }
                            }
                        }
                        for o in self.txns.keys() {
                            let e = self.committed_beside.entry(*o).or_default();
                            e.0.extend(ddl.iter().cloned());
                            e.1.extend(wr.iter().cloned());
                        }
                        self.committed_beside.remove(s);
                        self.model.commit(txn);
                    }
                    Err(dbx::Err::Panic(p)) => return Some(self.fail("panic", format!("COMMIT: {p}"))),
                    Err(e) => {
                        if !conflict {
                            return Some(self.fail("commit_failed", format!("step {i}: COMMIT of session {s} failed: {}", e.text())));
                        }
                        self.tags.insert("txn.ww_conflict".into());
                    }
                }
                if self.check_state_every_step && self.txns.is_empty() {
                    return self.full_check(&format!("after COMMIT at step {i}"));
                }
                None
            }
            Step::Rollback(s) | Step::DropSession(s) => {
                let Some(txn) = self.txns.remove(s) else { return None };
                self.committed_beside.remove(s);
                let was_doomed = self.doomed.remove(s);
                let is_drop = matches!(st, Step::DropSession(_));
                let mut tags = vec![if is_drop { "txn.drop_session".to_string() } else { "txn.rollback".to_string() }];
                if was_doomed {
                    tags.push("txn.noncommit_after_insert".to_string());
                }
                tags.extend(self.noncommit_tags(&txn.effects));
                if let Some(t) = tags.iter().find(|t| self.excluded.contains_key(*t)).cloned() {
                    // an open finding makes this kind of rollback fail in a known way: commit instead, and count it
                    self.skipped.push(t);
                    self.txns.insert(*s, txn);
                    self.last_step_kind = "commit_path";
                    return self.step(i, &Step::Commit(*s));
                }
                self.trace(format!("[{i}] s{s}: {}", if is_drop { "drop session" } else { "ROLLBACK" }));
                self.tags.extend(tags);
                if txn.wrote {
                    self.pending_noncommit_write = true;
                    self.note_foreign_end(Some(*s));
                }
                self.sess_reads.remove(s);
                let (eff, view) = (txn.effects.clone(), txn.view.clone());
                self.poison_from_effects(&eff, &view);
                if is_drop {
                    self.db.drop_session(*s);
                } else {
                    match self.db.rollback(*s) {
                        Ok(()) => {}
                        Err(dbx::Err::Panic(p)) => return Some(self.fail("panic", format!("ROLLBACK: {p}"))),
                        Err(e) => return Some(self.fail("rollback_failed", format!("step {i}: {}", e.text()))),
                    }
                }
                if self.check_state_every_step && self.txns.is_empty() {
                    if let Some(f) = self.full_check(&format!("after {} at step {i}", if is_drop { "session drop" } else { "ROLLBACK" })) {
                        let clause = match f.clause.as_str() {
                            "extra_rows" | "missing_rows" | "rows_differ" | "phantom_table" | "table_unreadable" => format!("rolled_back_txn_{}", f.clause),
                            c => c.to_string(),
                        };
                        return Some(Failure { clause, ..f });
                    }
                }
                None
            }
            Step::Batch(stmts) => {
                if !self.txns.is_empty() {
                    return None; // keep batches out of concurrent situations
                }
                let mut t = self.model.begin();
                let mut sqls = vec![];
                let mut outs = vec![];
                let mut tags = vec!["batch".to_string()];
                let mut failing: Option<(Stmt, State)> = None;
                for a in stmts {
                    let s = resolve(a, &t.view);
                    if update_is_order_sensitive(&t.view, &s) {
                        return None;
                    }
                    for tg in self.history_tags(&s, &t.view) {
                        tags.push(tg);
                    }
                    if let Stmt::Delete { table, .. } = &s {
                        tags.push("delete.in_txn".into());
                        if t.view.tables.get(table).map(|t| !t.def.uniques.is_empty()).unwrap_or(false) {
                            tags.push("delete.in_txn_on_unique_table".into());
                        }
                    }
                    if let Stmt::Delete { table, pred } = &s {
                        if let Some(tb) = t.view.tables.get(table) {
                            if tb.rows.iter().any(|(id, r)| self.updated_rows.contains(&(table.clone(), *id)) && pred.eval(r) == Some(true)) {
                                tags.push("txn.delete_of_updated_row_in_session".into());
                            }
                        }
                    }
                    for tg in stmt_tags(&s, &t.view) {
                        if tg.starts_with("ddl.") {
                            tags.push(format!("{tg}_in_txn"));
                        }
                        tags.push(tg);
                    }
                    sqls.push(stmt_sql(&s, &t.view));
                    let vb = t.view.clone();
                    let o = self.model.exec(&mut t, &s);
                    let failed = matches!(o, MOut::Err(..));
                    outs.push(o);
                    if failed {
                        tags.push("batch.failing_member".into());
                        failing = Some((s.clone(), vb));
                        break;
                    }
                }
                if tags.iter().any(|t| t == "batch.failing_member") {
                    tags.extend(self.noncommit_tags(&t.effects));
                }
                if self.skip_if_excluded(&tags) {
                    return None;
                }
                // the engine gets the whole list, including members after the failing one
                let all_sqls: Vec<String> = if outs.iter().any(|o| matches!(o, MOut::Err(..))) && sqls.len() < stmts.len() {
                    let mut v = sqls.clone();
                    // later members are resolved against the committed state (they must never run)
                    for a in &stmts[sqls.len()..] {
                        let s = resolve(a, &self.model.committed);
                        v.push(stmt_sql(&s, &self.model.committed));
                    }
                    v
                } else {
                    sqls.clone()
                };
                self.trace(format!("[{i}] batch: {}", all_sqls.join(" ; ")));
                self.tags.extend(tags);
                let eng = self.db.exec_batch(&all_sqls);
                let model_failed = outs.iter().any(|o| matches!(o, MOut::Err(..)));
                match (&eng, model_failed) {
                    (Err(dbx::Err::Panic(p)), _) => return Some(self.fail("panic", format!("batch: {p}"))),
                    (Ok(_), true) => return Some(self.fail("statement_should_fail", format!("step {i}: batch with a failing member succeeded: {all_sqls:?}"))),
                    (Err(e), false) => return Some(self.fail("spurious_error", format!("step {i}: batch failed: {}", e.text()))),
                    (Ok(eouts), false) => {
                        for e in &t.effects {
                            if let Effect::Update { table, id, .. } = e {
                                self.updated_rows.insert((table.clone(), *id));
                            }
                        }
                        self.model.commit(t);
                        if self.check_outputs {
                            for ((sql, e), m) in sqls.iter().zip(eouts).zip(&outs) {
                                if let Some(f) = self.compare_out(sql, &Ok(e.clone()), m, true) {
                                    return Some(f);
                                }
                            }
                        }
                    }
                    (Err(_), true) => {
                        self.last_step_kind = "failed_stmt";
                        if t.wrote {
                            self.pending_noncommit_write = true;
                        }
                        let (eff, view) = (t.effects.clone(), t.view.clone());
                        self.poison_from_effects(&eff, &view);
                        if let Some((fs, fv)) = &failing {
                            self.poison_from_failed_stmt(fs, fv);
                        }
                    }
                }
                if self.check_state_every_step {
                    if let Some(f) = self.full_check(&format!("after batch at step {i}")) {
                        let clause = if model_failed && !f.clause.starts_with("audit.") { "failed_batch_partial_effect".to_string() } else { f.clause.clone() };
                        return Some(Failure { clause, ..f });
                    }
                }
                None
            }
            Step::Flush => {
                if self.txns.iter().any(|(s, t)| t.wrote || self.doomed.contains(s)) {
                    if !self.allow_flush_with_open_writer && self.skip_if_excluded(&["admin.flush_with_open_writer".to_string()]) {
                        return None;
                    }
                    self.tags.insert("admin.flush_with_open_writer".into());
                }
                self.trace(format!("[{i}] flush"));
                self.tags.insert("admin.flush".into());
                match self.db.flush() {
                    Ok(()) => None,
                    Err(e) => Some(self.fail("flush_failed", e.text())),
                }
            }
            Step::Bystander(k) => {
                const B: u8 = 250;
                match (k % 5, self.bystander_open) {
                    (0 | 1, false) => {
                        if !self.db.usable() || self.db.begin(B).is_err() {
                            return None;
                        }
                        self.bystander_open = true;
                        self.tags.insert("txn.bystander".into());
                        self.trace(format!("[{i}] bystander: BEGIN"));
                        // (it reads only while no modelled transaction is open: reads beside open writers are C04's)
                        if k % 5 == 1 && self.txns.is_empty() {
                            let first = self.model.committed.tables.iter().next().map(|(n, tb)| (n.clone(), tb.rows.values().cloned().collect::<Vec<_>>()));
                            if let Some((name, rows)) = first {
                                let sql = format!("SELECT * FROM {name}");
                                self.trace(format!("[{i}] bystander: {sql}"));
                                let want = MOut::Rows(rows);
                                let eng = self.db.sexec(B, &sql);
                                if self.check_outputs {
                                    if let Some(f) = self.compare_out(&sql, &eng, &want, true) {
                                        return Some(f);
                                    }
                                }
                            }
                        }
                        None
                    }
                    (2..=4, true) => {
                        self.bystander_open = false;
                        self.trace(format!("[{i}] bystander: {}", ["", "", "COMMIT", "ROLLBACK", "drop session"][(*k % 5) as usize]));
                        self.tags.insert(format!("txn.bystander_{}", ["", "", "commit", "rollback", "drop"][(*k % 5) as usize]));
                        let r = match k % 5 {
                            2 => self.db.commit(B),
                            3 => self.db.rollback(B),
                            _ => {
                                self.db.drop_session(B);
                                Ok(())
                            }
                        };
                        match r {
                            Ok(()) => {}
                            Err(dbx::Err::Panic(p)) => return Some(self.fail("panic", format!("bystander end: {p}"))),
                            Err(e) => return Some(self.fail("spurious_error", format!("step {i}: a read-only transaction could not end: {}", e.text()))),
                        }
                        if self.check_state_every_step && self.txns.is_empty() {
                            return self.full_check(&format!("after the bystander ended at step {i}"));
                        }
                        None
                    }
                    _ => None,
                }
            }
            Step::Burn(n) => {
                if !self.txns.is_empty() {
                    return None;
                }
                let Some(t) = self.model.committed.tables.keys().next().cloned() else { return None };
                self.trace(format!("[{i}] {n} x SELECT on {t} (burning transaction ids)"));
                self.tags.insert("admin.burn_ids".into());
                self.burned += *n as u32;
                if self.burned >= 8000 {
                    // transactions that end without commit from here on have ids beyond the 8192 the persisted
                    // aborted-transaction bitmap can hold
                    self.tags.insert("ids.noncommit_beyond_8192".into());
                }
                let sql = format!("SELECT * FROM {t} WHERE 1 = 0");
                for _ in 0..*n {
                    match self.db.exec(&sql) {
                        Ok(_) => {}
                        Err(dbx::Err::Panic(p)) => return Some(self.fail("panic", format!("while burning ids: {p}"))),
                        Err(e) => return Some(self.fail("spurious_error", format!("`{sql}`: {}", e.text()))),
                    }
                }
                None
            }
            Step::Vacuum => {
                if !self.txns.is_empty() && !self.vacuum_aborts_sessions {
                    return None; // Database::vacuum aborts active transactions by contract
                }
                let aborted_by_vacuum: Vec<u8> = self.txns.keys().copied().collect();
                {
                    // aborting these sessions is a non-commit end: respect the exclusions of open findings
                    let mut tags = vec![];
                    for t in self.txns.values() {
                        tags.extend(self.noncommit_tags(&t.effects));
                    }
                    if self.skip_if_excluded(&tags) {
                        return None;
                    }
                    if tags.iter().any(|t| t == "txn.noncommit_after_delete") && self.skip_if_excluded(&["admin.vacuum_after_rolled_back_delete".to_string()]) {
                        return None;
                    }
                    self.tags.extend(tags);
                }
                if self.skip_if_excluded(&["admin.vacuum".to_string()]) {
                    return None;
                }
                if self.tags.contains("txn.noncommit_after_create") || self.tags.contains("ddl.create_table_failed") {
                    if self.skip_if_excluded(&["admin.vacuum_after_rolled_back_create".to_string()]) {
                        return None;
                    }
                    self.tags.insert("admin.vacuum_after_rolled_back_create".into());
                }
                let live_poisoned = self.poisoned_rows.iter().any(|(t, id)| self.model.committed.tables.get(t).map(|tb| tb.rows.contains_key(id)).unwrap_or(false));
                if live_poisoned {
                    if self.skip_if_excluded(&["admin.vacuum_after_rolled_back_delete".to_string()]) {
                        return None;
                    }
                    self.tags.insert("admin.vacuum_after_rolled_back_delete".into());
                }
                self.trace(format!("[{i}] vacuum"));
                if self.tags.iter().any(|t| t == "delete" || t == "update" || t.starts_with("txn.noncommit_after") || t == "failed_stmt" || t == "ddl.drop_table") && !self.model.committed.tables.is_empty() {
                    self.vacuum_had_work = true;
                }
                self.tags.insert("admin.vacuum".into());
                match self.db.vacuum() {
                    Ok(()) => {}
                    Err(dbx::Err::Panic(p)) => return Some(self.fail("panic", format!("VACUUM: {p}"))),
                    Err(e) => return Some(self.fail("vacuum_failed", e.text())),
                }
                // VACUUM aborted every open transaction (its documented contract): they are gone in the model too
                for s in aborted_by_vacuum {
                    if let Some(t) = self.txns.remove(&s) {
                        if t.wrote {
                            self.tags.insert("admin.vacuum_aborted_open_writer".into());
                            self.pending_noncommit_write = true;
                        }
                    }
                    self.sess_reads.remove(&s);
                    self.db.drop_session(s);
                }
                // VACUUM removes the remains of aborted transactions, index entries included
                self.poisoned_keys.clear();
                if self.check_state_every_step {
                    return self.full_check(&format!("after VACUUM at step {i}")).map(|f| if f.clause.starts_with("audit.") { f } else { Failure { clause: format!("vacuum_{}", f.clause), ..f } });
                }
                None
            }
            Step::Reopen(c) => {
                if !self.txns.is_empty() {
                    return None;
                }
                let cfg = self.reopen_cfgs[*c as usize % self.reopen_cfgs.len()];
                self.trace(format!("[{i}] close + reopen with {cfg:?}"));
                self.tags.insert("admin.reopen".into());
                match self.db.reopen(cfg) {
                    Ok(()) => {}
                    Err(dbx::Err::Panic(p)) => return Some(self.fail("panic", format!("reopen: {p}"))),
                    Err(e) => return Some(self.fail("reopen_failed", e.text())),
                }
                if self.check_state_every_step {
                    return self.full_check(&format!("after reopen at step {i}")).map(|f| if f.clause.starts_with("audit.") { f } else { Failure { clause: format!("reopen_{}", f.clause), ..f } });
                }
                None
            }
        }
    }

    /// Reads every table inside session `s` and compares with that transaction's view.
    pub fn session_view_check(&mut self, s: u8, at: &str) -> Option<Failure> {
        let view = self.txns.get(&s)?.view.clone();
        for (name, t) in &view.tables {
            let sql = format!("SELECT * FROM {name}");
            match self.db.sexec(s, &sql) {
                Ok(Out::Rows { rows, .. }) => {
                    let want: Vec<Vec<Val>> = t.rows.values().cloned().collect();
                    if !rows_equal(&rows, &want) {
                        return Some(self.fail(&format!("session_{}", diff_clause(&rows, &want)), format!("{at}: session {s} reads {name}: engine {} model {}", show_rows(&rows), show_rows(&want))));
                    }
                }
                Ok(o) => return Some(self.fail("wrong_result_kind", format!("{at}: {o:?}"))),
                Err(dbx::Err::Panic(p)) => return Some(self.fail("panic", format!("{at}: `{sql}` in session {s}: {p}"))),
                Err(e) => return Some(self.fail("session_unusable_after_error", format!("{at}: `{sql}` in session {s}: {}", e.text()))),
            }
        }
        None
    }

    /// Ends all open sessions by rollback (model discards them).
    pub fn close_sessions(&mut self) {
        let open: Vec<u8> = self.txns.keys().copied().collect();
        for s in open {
            self.txns.remove(&s);
            self.db.drop_session(s);
        }
    }
}
