//! C20, coverage-guided: arbitrary bytes handed to the five decoding entry points of the wire protocol
//! (byte 0 picks the entry point). Oracle: `run_garbage` of the proptest check - no panic, no allocation out of
//! proportion to the input, an accepted value re-encodes to something that decodes to the same value, framing
//! accepts exactly well-formed frames.
#![no_main]
use libfuzzer_sys::fuzz_target;
use std::sync::OnceLock;
use vcheck::engine::*;
use vcheck::props::c20;

static FINDINGS: OnceLock<Findings> = OnceLock::new();

fuzz_target!(|data: &[u8]| {
    let findings = FINDINGS.get_or_init(|| {
        vcheck::panics::install();
        Findings::load()
    });
    if data.is_empty() {
        return;
    }
    let case = c20::Garbage { target: data[0] % 5, bytes: data[1..].to_vec() };
    let out = c20::run_garbage(&case);
    let _ = vcheck::panics::take();
    if let Some(f) = out.failure {
        if findings.match_open("C20", &f).is_some() {
            return;
        }
        let p = write_replay(&Replay { property: "C20".into(), kind: "garbage".into(), case: serde_json::to_value(&case).unwrap(), failure: Some(f.clone()), tier: Some("fuzz".into()), seed: None, shard: None, shrunk_from: None, note: Some("found by the libFuzzer stage (harness/fuzz/fuzz_targets/wire_decode.rs)".into()) });
        eprintln!("FUZZ-FAILURE property=C20 clause={} replay={}", f.clause, p.display());
        std::process::abort();
    }
});
