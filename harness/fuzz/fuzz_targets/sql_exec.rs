//! C16, coverage-guided: any input text, in any of a few session shapes, yields a result or an error; no worker
//! dies, nothing hangs (libFuzzer -timeout), and after an error the database holds what it held before.
//! The oracle is the same `run_case` the proptest search of C16 uses; failures that match an open finding of
//! findings/known.json are tolerated (and counted), anything else writes a replay file and aborts.
#![no_main]
use libfuzzer_sys::fuzz_target;
use std::sync::OnceLock;
use vcheck::engine::*;
use vcheck::props::c16;

struct Ctx {
    findings: Findings,
    excluded: Vec<String>,
}
static CTX: OnceLock<Ctx> = OnceLock::new();

fuzz_target!(|data: &[u8]| {
    let ctx = CTX.get_or_init(|| {
        vcheck::panics::install();
        let findings = Findings::load();
        let excluded = findings.excludes("C16").keys().cloned().collect();
        Ctx { findings, excluded }
    });
    let Some(case) = c16::case_from_fuzz_bytes(data, &ctx.excluded) else { return };
    let out = c16::run_case(&case);
    let _ = vcheck::panics::take();
    if let Some(f) = out.failure {
        if ctx.findings.match_open("C16", &f).is_some() {
            return;
        }
        let p = write_replay(&Replay { property: "C16".into(), kind: "inputs".into(), case: serde_json::to_value(&case).unwrap(), failure: Some(f.clone()), tier: Some("fuzz".into()), seed: None, shard: None, shrunk_from: None, note: Some("found by the libFuzzer stage (harness/fuzz/fuzz_targets/sql_exec.rs)".into()) });
        eprintln!("FUZZ-FAILURE property=C16 clause={} replay={}", f.clause, p.display());
        std::process::abort();
    }
});
